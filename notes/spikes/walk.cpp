#define HFSM2_ENABLE_ALL
#define HFSM2_ENABLE_VERBOSE_DEBUG_LOG
#define HFSM2_ENABLE_ASSERT
#include <hfsm2/machine.hpp>
#include "model.hpp"
#include <random>
#include <map>

struct Ctx;
struct ScriptRNG { float next() noexcept; Ctx* ctx = nullptr; };
using Config = hfsm2::Config::ContextT<Ctx&>::ManualActivation::RandomT<ScriptRNG>;
using M = hfsm2::MachineT<Config>;
template <int N> struct St;

using FSM = M::Root<St<0>,
  M::Composite<St<1>, St<2>, St<3>, M::Resumable<St<4>, St<5>, St<6>, St<7>>>,
  M::Orthogonal<St<8>,
     M::Selectable<St<9>, St<10>, St<11>>,
     M::Utilitarian<St<12>, St<13>, St<14>, St<15>>,
     M::Random<St<16>, St<17>, St<18>>,
     St<19>
  >,
  M::CompositePeers<St<21>, St<22>>,
  M::Composite<St<23>, M::Composite<St<24>, St<25>, M::Composite<St<26>, St<27>, St<28>>>, St<29>>
>;
// NOTE: id 20 is the headless head of CompositePeers
static const int NS = 30;
struct Ctx { unsigned char sel[NS]; float util[NS]; signed char rank[NS]; float rnd=0.5f; int rndCalls=0; int breaks=0; };
float ScriptRNG::next() noexcept { ++ctx->rndCalls; return ctx->rnd; }
static Ctx* g_ctx=nullptr;
extern "C" void hfsm2_verif_break(const char* file, int line) noexcept { if (g_ctx) ++g_ctx->breaks; static int n=0; if (n++<20) std::fprintf(stderr, "BREAK %s:%d\n", file, line); }

template <int N> struct St : FSM::State {
  hfsm2::Prong select(const Control& c) { return c.context().sel[N]; }
  int8_t rank(const Control& c) { return c.context().rank[N]; }
  float utility(const Control& c) { return c.context().util[N]; }
};

using namespace mdl;
static Tree buildTree() {
  Tree t; t.n.resize(NS);
  auto mk=[&](int id, Kind k, Strat s, bool headless, std::vector<int> subs){ Node& n=t.n[id]; n.id=id;n.kind=k;n.strat=s;n.headless=headless;n.subs=subs; n.compo=-1; };
  for (int i=0;i<NS;++i) { mk(i,LEAF,S_COMPOSITE,false,{}); t.n[i].parent=-1; t.n[i].prong=0; }
  mk(0,COMPO,S_COMPOSITE,false,{1,8,20,23});
  mk(1,COMPO,S_COMPOSITE,false,{2,3,4}); mk(4,COMPO,S_RESUMABLE,false,{5,6,7});
  mk(8,ORTHO,S_COMPOSITE,false,{9,12,16,19}); mk(9,COMPO,S_SELECTABLE,false,{10,11}); mk(12,COMPO,S_UTILITARIAN,false,{13,14,15}); mk(16,COMPO,S_RANDOM,false,{17,18});
  mk(20,COMPO,S_COMPOSITE,true,{21,22});
  mk(23,COMPO,S_COMPOSITE,false,{24,29}); mk(24,COMPO,S_COMPOSITE,false,{25,26}); mk(26,COMPO,S_COMPOSITE,false,{27,28});
  int ci=0; for (int i=0;i<NS;++i){ if(t.n[i].kind==COMPO) t.n[i].compo=ci++; for(size_t k=0;k<t.n[i].subs.size();++k){t.n[t.n[i].subs[k]].parent=i;t.n[t.n[i].subs[k]].prong=(int)k;} }
  t.compoCount=ci; return t;
}

int main(int argc, char** argv) {
  unsigned seed = argc>1? atoi(argv[1]):1; int iters = argc>2? atoi(argv[2]):100000; int maxBatch = argc>3? atoi(argv[3]):1;
  Quirks q; if (argc>4) { q.earlyStop = argv[4][0]=='1'; q.selectNoDescend = argv[4][1]=='1'; q.reenterNoResumable = argv[4][2]=='1'; q.headlessZero = argv[4][3]=='1'; }
  Tree t=buildTree();
  Ctx ctx{}; g_ctx=&ctx; for (int i=0;i<NS;++i){ctx.util[i]=1.0f;}
  ScriptRNG rng; rng.ctx=&ctx;
  FSM::Instance fsm{ctx, rng};
  Env env; env.select=[&](int s){return (int)ctx.sel[s];}; env.utility=[&](int s){return ctx.util[s];}; env.rank=[&](int s){return t.n[s].headless?0:(int)ctx.rank[s];}; env.rnd=[&](){return ctx.rnd;};
  Model m(t, env); m.q=q;
  std::mt19937 g(seed);
  auto readCfg=[&](){ Cfg c; c.active.assign(t.compoCount,-1); c.resumable.assign(t.compoCount,-1); for (int i=0;i<NS;++i){ const Node& n=t.n[i]; if (n.parent>=0 && t.n[n.parent].kind==COMPO){ int ci=t.n[n.parent].compo; if (fsm.isActive((hfsm2::StateID)i)) { c.active[ci]=n.prong; } if (fsm.isResumable((hfsm2::StateID)i)) c.resumable[ci]=n.prong; } } return c; };
  auto show=[&](const Cfg& c){ std::string s; for(int i=0;i<t.compoCount;++i){ s+= std::to_string(c.active[i])+"/"+std::to_string(c.resumable[i])+" "; } return s; };
  fsm.enter(); m.initial();
  Cfg lc=readCfg();
  if (!(lc==m.cfg)) { std::printf("INITIAL mismatch lib %s model %s\n", show(lc).c_str(), show(m.cfg).c_str()); }
  m.cfg=lc;
  int mism=0; std::map<std::string,int> classes;
  for (int it=0; it<iters; ++it) {
    // randomise env
    for (int i=0;i<NS;++i){ ctx.util[i] = (float)(1+g()%4); ctx.rank[i]=(signed char)(g()%2); int w = t.n[i].kind==COMPO? (int)t.n[i].subs.size():1; ctx.sel[i]=(unsigned char)(g()%w);} ctx.rnd = (float)(g()%1000)/1000.f;
    int nb = 1 + g()%maxBatch; std::vector<Req> rs;
    for (int b=0;b<nb;++b){ Req r; r.type=(TType)(g()%7); r.dest = 1 + g()%(NS-1); if (g()%40==0) r.dest=0; if (r.type==T_SCHEDULE && r.dest==0) r.dest=1; if (r.type==T_SELECT && t.n[r.dest].kind!=LEAF) r.dest=9; if (r.type==T_SELECT && r.dest==0) r.dest=9; rs.push_back(r);
      hfsm2::StateID d=(hfsm2::StateID)r.dest;
      switch(r.type){case T_CHANGE: fsm.changeTo(d);break;case T_RESTART:fsm.restart(d);break;case T_RESUME:fsm.resume(d);break;case T_SELECT:fsm.select(d);break;case T_UTILIZE:fsm.utilize(d);break;case T_RANDOMIZE:fsm.randomize(d);break;case T_SCHEDULE:fsm.schedule(d);break;} }
    Cfg before=m.cfg; int b0=ctx.breaks;
    fsm.update();
    m.apply(rs);
    lc=readCfg();
    bool same = (lc.active==m.cfg.active);
    bool sameR = (lc.resumable==m.cfg.resumable);
    if (!same || !sameR || ctx.breaks!=b0) {
      ++mism;
      std::string key = std::string(same?"":"ACTIVE ") + (sameR?"":"RESUM ") + (ctx.breaks!=b0?"BREAK ":"");
      if (classes[key]++ < 4) { std::printf("[%d] %s reqs:", it, key.c_str()); for(auto&r:rs) std::printf(" (%d->%d)", (int)r.type, r.dest); std::printf("\n  before %s\n  lib    %s\n  model  %s\n", show(before).c_str(), show(lc).c_str(), show(m.cfg).c_str()); }
      m.cfg=lc; // resync
      // if lib config is malformed, reset
      bool bad=false; for (int i=0;i<t.compoCount;++i) if (lc.active[i]>=(int)8) bad=true;
    }
  }
  std::printf("iters %d mismatches %d\n", iters, mism); for (auto&kv:classes) std::printf("  %s: %d\n", kv.first.c_str(), kv.second);
}
