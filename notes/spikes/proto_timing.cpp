#define HFSM2_ENABLE_ALL
#define HFSM2_ENABLE_VERBOSE_DEBUG_LOG
#define HFSM2_ENABLE_ASSERT
#include <hfsm2/machine.hpp>
#include <cstdio>
#include <vector>
#include <cstdint>

struct Ctx;
struct ScriptRNG { float next() noexcept; Ctx* ctx = nullptr; };

using Config = hfsm2::Config::ContextT<Ctx&>::ManualActivation::RandomT<ScriptRNG>::PayloadT<int>;
using M = hfsm2::MachineT<Config>;

template <int N> struct St;
struct Ev { int v; };

using FSM = M::Root<St<0>,
  M::Composite<St<1>, St<2>, St<3>, M::Resumable<St<4>, St<5>, St<6>, St<7>>>,
  M::Orthogonal<St<8>,
     M::Selectable<St<9>, St<10>, St<11>>,
     M::Utilitarian<St<12>, St<13>, St<14>, St<15>>,
     M::Random<St<16>, St<17>, St<18>>,
     St<19>
  >,
  M::CompositePeers<St<20>, St<21>>,
  St<22>
>;

struct Rec { int state; int method; const void* self; };
struct Ctx { std::vector<Rec> trace; unsigned char sel[32]; float util[32]; signed char rank[32]; std::vector<float> rnd; size_t ri=0; int act[32][20]; };
float ScriptRNG::next() noexcept { return ctx->ri < ctx->rnd.size() ? ctx->rnd[ctx->ri++] : 0.5f; }

template <int N> struct St : FSM::State {
  using FSM::State::react; using FSM::State::preReact; using FSM::State::postReact; using FSM::State::query;
  void rec(Ctx& c, hfsm2::Method m) { c.trace.push_back(Rec{N,(int)m,this}); }
  template <typename C> void act(C& control, hfsm2::Method m) { int a = control.context().act[N][(int)m]; if (a > 0) { control.changeTo((hfsm2::StateID)(a)); } }
  hfsm2::Prong select(const Control& c) { return c.context().sel[N]; }
  int8_t rank(const Control& c) { return c.context().rank[N]; }
  float utility(const Control& c) { return c.context().util[N]; }
  void entryGuard(GuardControl& c) { rec(c.context(), hfsm2::Method::ENTRY_GUARD); act(c, hfsm2::Method::ENTRY_GUARD); }
  void enter(PlanControl& c) { rec(c.context(), hfsm2::Method::ENTER); }
  void reenter(PlanControl& c) { rec(c.context(), hfsm2::Method::REENTER); }
  void preUpdate(FullControl& c) { rec(c.context(), hfsm2::Method::PRE_UPDATE); act(c, hfsm2::Method::PRE_UPDATE);}
  void update(FullControl& c) { rec(c.context(), hfsm2::Method::UPDATE); act(c, hfsm2::Method::UPDATE);}
  void postUpdate(FullControl& c) { rec(c.context(), hfsm2::Method::POST_UPDATE); act(c, hfsm2::Method::POST_UPDATE);}
  void preReact(const Ev&, EventControl& c) { rec(c.context(), hfsm2::Method::PRE_REACT); }
  void react(const Ev&, EventControl& c) { rec(c.context(), hfsm2::Method::REACT); }
  void postReact(const Ev&, EventControl& c) { rec(c.context(), hfsm2::Method::POST_REACT); }
  void query(Ev&, ConstControl& c) const { const_cast<Ctx&>(c.context()).trace.push_back(Rec{N,(int)hfsm2::Method::QUERY,this}); }
  void exitGuard(GuardControl& c) { rec(c.context(), hfsm2::Method::EXIT_GUARD); act(c, hfsm2::Method::EXIT_GUARD);}
  void exit(PlanControl& c) { rec(c.context(), hfsm2::Method::EXIT); }
  void planSucceeded(FullControl& c) { rec(c.context(), hfsm2::Method::PLAN_SUCCEEDED); FSM::State::planSucceeded(c); }
  void planFailed(FullControl& c) { rec(c.context(), hfsm2::Method::PLAN_FAILED); FSM::State::planFailed(c);}
};

struct Log : M::LoggerInterface {
  std::vector<Rec> log;
  void recordMethod(const Context&, const StateID origin, const Method method) override { log.push_back(Rec{(int)origin,(int)method,nullptr}); }
};

extern "C" void hfsm2_verif_break(const char* file, int line) noexcept { std::fprintf(stderr, "BREAK %s:%d\n", file, line); }

int main(int argc, char**) {
  Ctx ctx{}; for (int i=0;i<32;++i){ctx.util[i]=1.0f;}
  ScriptRNG rng; rng.ctx=&ctx; Log log;
  FSM::Instance fsm{ctx, rng, &log};
  fsm.enter();
  unsigned long long h=0;
  for (int it=0; it<200000; ++it) {
    int d = 1 + (it*7919) % 22;
    switch (it%5){case 0: fsm.changeTo((hfsm2::StateID)d); break; case 1: fsm.restart((hfsm2::StateID)d); break; case 2: fsm.resume((hfsm2::StateID)d); break; case 3: fsm.utilize((hfsm2::StateID)d); break; case 4: fsm.randomize((hfsm2::StateID)d); break;}
    fsm.update();
    fsm.react(Ev{1});
    Ev e{2}; fsm.query(e);
    h += ctx.trace.size(); ctx.trace.clear(); log.log.clear();
    if (argc>5) { FSM::Instance::SerialBuffer b; fsm.save(b); fsm.load(b); fsm.replayTransitions(fsm.previousTransitions()); }
  }
  fsm.exit();
  std::printf("%llu %zu\n", h, sizeof(fsm));
}
