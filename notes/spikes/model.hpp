// Spike: reference model of HFSM2 request processing (ideal semantics per property C02)
#pragma once
#include <vector>
#include <cstdint>
#include <cstdio>
#include <string>
#include <functional>
#include <algorithm>

namespace mdl {

enum Kind { LEAF, COMPO, ORTHO };
enum Strat { S_COMPOSITE, S_RESUMABLE, S_SELECTABLE, S_UTILITARIAN, S_RANDOM };
enum TType { T_CHANGE, T_RESTART, T_RESUME, T_SELECT, T_UTILIZE, T_RANDOMIZE, T_SCHEDULE };

struct Node { int id; Kind kind; Strat strat; bool headless; int parent; int prong; std::vector<int> subs; int compo; };
struct Tree { std::vector<Node> n; int compoCount = 0; };
struct Cfg { std::vector<int> active, resumable; bool operator==(const Cfg& o) const { return active==o.active && resumable==o.resumable; } };
struct Req { TType type; int dest; };
struct Env { std::function<int(int)> select; std::function<float(int)> utility; std::function<int(int)> rank; std::function<float()> rnd; };

struct Quirks { bool earlyStop=false; bool selectNoDescend=false; bool reenterNoResumable=false; bool headlessZero=false; };

struct Model {
  const Tree& t; Env env; Quirks q;
  Cfg cfg; std::vector<int> req; std::vector<char> remain;
  Model(const Tree& t_, Env e): t(t_), env(e) { cfg.active.assign(t.compoCount,-1); cfg.resumable.assign(t.compoCount,-1); req.assign(t.compoCount,-1);}  

  static TType effective(TType ty, Strat st) {
    if (ty != T_CHANGE) return ty;
    switch (st) { case S_COMPOSITE: return T_RESTART; case S_RESUMABLE: return T_RESUME; case S_SELECTABLE: return T_SELECT; case S_UTILITARIAN: return T_UTILIZE; default: return T_RANDOMIZE; }
  }
  // utility a state reports when evaluated for request kind ty (CHANGE => by declared strategy, UTILIZE => utilize all the way down, RANDOMIZE: leaf/heads only)
  float util(int s, TType ty) {
    const Node& nd = t.n[s];
    float h = nd.headless ? (q.headlessZero?0.0f:1.0f) : env.utility(s);
    if (nd.kind==LEAF) return h;
    if (nd.kind==ORTHO) { float sum=0; for (int c: nd.subs) sum += util(c, ty); return h * (sum / (float)nd.subs.size()); }
    int pick = choose(s, ty);
    return h * util(nd.subs[pick], ty);
  }
  int choose(int s, TType ty) { // which sub-state region s would activate for request kind ty
    const Node& nd = t.n[s];
    TType eff = effective(ty, nd.strat);
    switch (eff) {
      case T_RESTART: return 0;
      case T_RESUME: return cfg.resumable[nd.compo] >= 0 ? cfg.resumable[nd.compo] : 0;
      case T_SELECT: return env.select(s);
      case T_UTILIZE: { float best=-1; int pick=0; for (size_t i=0;i<nd.subs.size();++i){ float u = util(nd.subs[i], ty); if (u>best){best=u;pick=(int)i;} } return pick; }
      case T_RANDOMIZE: { int top=-128; for (int c: nd.subs) top = std::max(top, env.rank(c)); std::vector<float> u(nd.subs.size(),0.f); float sum=0; for(size_t i=0;i<nd.subs.size();++i) if (env.rank(nd.subs[i])==top){u[i]=util(nd.subs[i], ty); sum+=u[i];} float r=env.rnd(); float cur=r*sum; for(size_t i=0;i<u.size();++i) if (env.rank(nd.subs[i])==top){ if (cur>=u[i]) cur-=u[i]; else return (int)i; } return -2; }
      default: return 0;
    }
  }
  void resolveDown(int s, TType ty) {
    const Node& nd = t.n[s];
    if (nd.kind == LEAF) return;
    if (nd.kind == ORTHO) { for (int c : nd.subs) resolveDown(c, ty); return; }
    int pick = choose(s, ty);
    req[nd.compo] = pick;
    if (pick < 0) return;
    if (q.selectNoDescend && effective(ty, nd.strat)==T_SELECT) return;
    resolveDown(nd.subs[pick], ty);
  }
  bool onPath(int s, int dest) const { int c=dest; while(c>=0){ if(c==s) return true; c=t.n[c].parent;} return false; }
  void forward(int s, bool requestMode, const Req& r) {
    const Node& nd=t.n[s];
    if (nd.kind==LEAF) return;
    if (nd.kind==COMPO) {
      int rq=req[nd.compo];
      if (!requestMode) { if (rq<0) forward(nd.subs[cfg.active[nd.compo]], false, r); else forward(nd.subs[rq], true, r); }
      else { if (rq>=0) forward(nd.subs[rq], true, r); else resolveDown(s, r.type); }
    } else {
      if (!requestMode) { for (int c: nd.subs) if (onPath(c, r.dest)) forward(c,false,r); }
      else { for (int c: nd.subs) forward(c,true,r); }
    }
  }
  void applyOne(const Req& r) {
    if (r.type==T_SCHEDULE) { const Node& d=t.n[r.dest]; if (d.parent>=0 && t.n[d.parent].kind==COMPO) cfg.resumable[t.n[d.parent].compo]=d.prong; return; }
    if (r.dest==0) { resolveDown(0, r.type); return; }
    bool first=true, stopped=false; int cur=r.dest;
    while (t.n[cur].parent>=0) {
      const Node& p=t.n[t.n[cur].parent]; int pr=t.n[cur].prong;
      if (p.kind==COMPO && !stopped) {
        int& rq=req[p.compo];
        if (first) { rq=pr; first=false; cur=p.id; continue; }
        remain[p.compo]=1; if (false) {}
        else if ((rq>=0 && rq!=pr) || cfg.active[p.compo]!=pr) rq=pr;
        else if (q.earlyStop) stopped=true;
      }
      cur=p.id;
    }
    forward(0,false,r);
  }
  void deactivate(int s){ const Node& nd=t.n[s]; if(nd.kind==LEAF)return; if(nd.kind==ORTHO){for(int c:nd.subs)deactivate(c);return;} int a=cfg.active[nd.compo]; if(a>=0){deactivate(nd.subs[a]); cfg.resumable[nd.compo]=a; cfg.active[nd.compo]=-1;} }
  void activate(int s){ const Node& nd=t.n[s]; if(nd.kind==LEAF)return; if(nd.kind==ORTHO){for(int c:nd.subs)activate(c);return;} int r=req[nd.compo]; cfg.active[nd.compo]=r; if(cfg.resumable[nd.compo]==r) cfg.resumable[nd.compo]=-1; if (r>=0) activate(nd.subs[r]); }
  void reenter(int s){ const Node& nd=t.n[s]; if(nd.kind==LEAF)return; if(nd.kind==ORTHO){for(int c:nd.subs)reenter(c);return;}
    int a=cfg.active[nd.compo], r=req[nd.compo];
    if (r<0 || r==a) { reenter(nd.subs[a]); }
    else { deactivate(nd.subs[a]); if(!q.reenterNoResumable) cfg.resumable[nd.compo]=a; cfg.active[nd.compo]=r; if (cfg.resumable[nd.compo]==r) cfg.resumable[nd.compo]=-1; activate(nd.subs[r]); } }
  void commit(int s){ const Node& nd=t.n[s]; if(nd.kind==LEAF)return; if(nd.kind==ORTHO){for(int c:nd.subs)commit(c);return;}
    int a=cfg.active[nd.compo], r=req[nd.compo];
    if (r<0) { commit(nd.subs[a]); }
    else if (r!=a) { deactivate(nd.subs[a]); cfg.resumable[nd.compo]=a; cfg.active[nd.compo]=r; activate(nd.subs[r]); }
    else if (remain[nd.compo]) { deactivate(nd.subs[a]); activate(nd.subs[a]); }
    else { reenter(nd.subs[a]); } }
  void apply(const std::vector<Req>& rs) { req.assign(t.compoCount,-1); remain.assign(t.compoCount,0); bool any=false; for (auto& r: rs) { applyOne(r); if (r.type!=T_SCHEDULE) any=true; } if (any) commit(0); req.assign(t.compoCount,-1); }
  void initial(){ req.assign(t.compoCount,-1); resolveDown(0,T_CHANGE); activate(0); req.assign(t.compoCount,-1);}  
};

}
