// Spike: callback order model for update/react/query (C05), TopDown and BottomUp
#define HFSM2_ENABLE_ALL
#define HFSM2_ENABLE_ASSERT
#include <hfsm2/machine.hpp>
#include "../p2/model.hpp"
#include <random>
#include <cstdio>
struct Rec { int s, m, inj; bool operator==(const Rec&o) const {return s==o.s&&m==o.m&&inj==o.inj;} };
struct Ctx { std::vector<Rec>* sink; int consumeState=-1, consumeMethod=-1, consumeInj=0; };
#ifdef BOTTOMUP
using Config = hfsm2::Config::ContextT<Ctx&>::ManualActivation::BottomUpReactions;
static const bool BU=true;
#else
using Config = hfsm2::Config::ContextT<Ctx&>::ManualActivation;
static const bool BU=false;
#endif
using M = hfsm2::MachineT<Config>;
template <int N> struct St;
struct Ev{}; 
using FSM = M::Root<St<0>,
  M::Composite<St<1>, St<2>, St<3>, M::Resumable<St<4>, St<5>, St<6>, St<7>>>,
  M::Orthogonal<St<8>, M::Selectable<St<9>, St<10>, St<11>>, St<12>, M::OrthogonalPeers<St<14>, St<15>>, M::Random<St<16>, St<17>, St<18>>, St<19> >,
  M::CompositePeers<St<21>, St<22>>
>;
static const int NS=23;
enum { PRE_UPDATE=1, UPDATE, POST_UPDATE, PRE_REACT, REACT, POST_REACT, QUERY };
struct InjA : FSM::State {
  using FSM::State::react; using FSM::State::preReact; using FSM::State::postReact; using FSM::State::query;
  template<typename C> void r(C& c, int m) { c.context().sink->push_back(Rec{(int)c.stateId(), m, 1}); }
  void preUpdate(FullControl& c){r(c,PRE_UPDATE);} void update(FullControl& c){r(c,UPDATE);} void postUpdate(FullControl& c){r(c,POST_UPDATE);}
  void preReact(const Ev&, EventControl& c){r(c,PRE_REACT); cons(c,PRE_REACT);} void react(const Ev&, EventControl& c){r(c,REACT);cons(c,REACT);} void postReact(const Ev&, EventControl& c){r(c,POST_REACT);cons(c,POST_REACT);}
  void cons(EventControl& c, int m){ if (c.context().consumeInj==1 && c.context().consumeState==(int)c.stateId() && c.context().consumeMethod==m) c.consumeEvent(); }
  void query(Ev&, ConstControl& c) const { c.context().sink->push_back(Rec{(int)c.stateId(), QUERY, 1}); if (c.context().consumeInj==1 && c.context().consumeState==(int)c.stateId() && c.context().consumeMethod==QUERY) c.consumeQuery(); }
};
template <int N> struct Base_ { using type = FSM::State; };
template <> struct Base_<3> { using type = FSM::StateT<InjA>; };
template <> struct Base_<8> { using type = FSM::StateT<InjA>; };
template <> struct Base_<15> { using type = FSM::StateT<InjA>; };
template <int N> struct St : Base_<N>::type {
  using B = typename Base_<N>::type;
  using typename B::FullControl; using typename B::EventControl; using typename B::ConstControl;
  using B::react; using B::preReact; using B::postReact; using B::query;
  template<typename C> void r(C& c, int m) { c.context().sink->push_back(Rec{N, m, 0}); }
  void preUpdate(FullControl& c){r(c,PRE_UPDATE);} void update(FullControl& c){r(c,UPDATE);} void postUpdate(FullControl& c){r(c,POST_UPDATE);}
  void cons(EventControl& c, int m){ if (c.context().consumeInj==0 && c.context().consumeState==N && c.context().consumeMethod==m) c.consumeEvent(); }
  void preReact(const Ev&, EventControl& c){r(c,PRE_REACT);cons(c,PRE_REACT);} void react(const Ev&, EventControl& c){r(c,REACT);cons(c,REACT);} void postReact(const Ev&, EventControl& c){r(c,POST_REACT);cons(c,POST_REACT);}
  void query(Ev&, ConstControl& c) const { c.context().sink->push_back(Rec{N, QUERY, 0}); if (c.context().consumeInj==0 && c.context().consumeState==N && c.context().consumeMethod==QUERY) c.consumeQuery(); }
};
extern "C" void hfsm2_verif_break(const char* f, int l) noexcept { std::fprintf(stderr,"BREAK %s:%d\n", f,l); }
using namespace mdl;
static Tree buildTree() {
  Tree t; t.n.resize(NS);
  auto mk=[&](int id, Kind k, Strat s, bool headless, std::vector<int> subs){ Node& n=t.n[id]; n.id=id;n.kind=k;n.strat=s;n.headless=headless;n.subs=subs; n.compo=-1; };
  for (int i=0;i<NS;++i) { mk(i,LEAF,S_COMPOSITE,false,{}); t.n[i].parent=-1; t.n[i].prong=0; }
  mk(0,COMPO,S_COMPOSITE,false,{1,8,20}); mk(1,COMPO,S_COMPOSITE,false,{2,3,4}); mk(4,COMPO,S_RESUMABLE,false,{5,6,7});
  mk(8,ORTHO,S_COMPOSITE,false,{9,12,13,16,19}); mk(9,COMPO,S_SELECTABLE,false,{10,11}); mk(13,ORTHO,S_COMPOSITE,true,{14,15}); mk(16,COMPO,S_RANDOM,false,{17,18});
  mk(20,COMPO,S_COMPOSITE,true,{21,22});
  int ci=0; for (int i=0;i<NS;++i){ if(t.n[i].kind==COMPO) t.n[i].compo=ci++; for(size_t k=0;k<t.n[i].subs.size();++k){t.n[t.n[i].subs[k]].parent=i;t.n[t.n[i].subs[k]].prong=(int)k;} }
  t.compoCount=ci; return t;
}
static bool hasInj(int s){ return s==3||s==8||s==15; }
struct Order { const Tree& t; std::vector<int> active; std::vector<Rec> out; bool consumed=false; int cs,cm,ci; bool leafSiblingQuirk=false;
  // emit callbacks of one state for method m; down=true: injected first then own; up: own then injected
  void state(int s, int m, bool injFirst){ if (t.n[s].headless) return; auto emit=[&](int inj){ if (consumed && !leafSiblingQuirkActive) return; out.push_back(Rec{s,m,inj}); if (cs==s&&cm==m&&ci==inj) consumed=true; };
    // within a state, the lib calls both injected and own regardless of consumption
    bool before=consumed; (void)before;
    if (injFirst) { if (hasInj(s)) emitAlways(s,m,1); emitAlways(s,m,0);} else { emitAlways(s,m,0); if (hasInj(s)) emitAlways(s,m,1);} }
  bool leafSiblingQuirkActive=false;
  void emitAlways(int s,int m,int inj){ out.push_back(Rec{s,m,inj}); if (cs==s&&cm==m&&ci==inj) consumed=true; }
  // phase walk: headFirst => head then subs
  void walk(int s, int m, bool headFirst, bool injFirst, bool stoppable){
    const Node& nd=t.n[s];
    if (nd.kind==LEAF) { if (!(stoppable && consumed) || leafQ) state(s,m,injFirst); return; }
    if (stoppable && consumed) return;
    auto subs=[&](){ if (nd.kind==COMPO) walk(nd.subs[active[nd.compo]],m,headFirst,injFirst,stoppable); else for (int c: nd.subs) { walk(c,m,headFirst,injFirst,stoppable);} };
    if (headFirst) { state(s,m,injFirst); if (!(stoppable&&consumed)) subs(); } else { subs(); if (!(stoppable&&consumed)) state(s,m,injFirst); }
  }
  bool leafQ=false;
};
int main(int argc, char** argv){
  unsigned seed=argc>1?atoi(argv[1]):1; int iters=argc>2?atoi(argv[2]):20000; bool quirk = argc>3 && argv[3][0]=='1';
  Tree t=buildTree(); std::vector<Rec> sink; Ctx ctx{&sink};
  FSM::Instance fsm{ctx}; fsm.enter(); std::mt19937 g(seed);
  int mism=0, shown=0;
  for (int it=0; it<iters; ++it){
    fsm.immediateChangeTo((hfsm2::StateID)(1+g()%(NS-1)));
    std::vector<int> active(t.compoCount,-1); for (int i=0;i<NS;++i){ const Node&n=t.n[i]; if(n.parent>=0&&t.n[n.parent].kind==COMPO&&fsm.isActive((hfsm2::StateID)i)) active[t.n[n.parent].compo]=n.prong; }
    int which=g()%3; ctx.consumeState = (g()%3==0)?-1:(int)(g()%NS); ctx.consumeInj = (hasInj(ctx.consumeState)&&g()%2)?1:0;
    Order o{t,active}; o.cs=ctx.consumeState; o.ci=ctx.consumeInj; o.leafQ=quirk;
    sink.clear();
    if (which==0){ ctx.consumeMethod=-1; o.cm=-1; fsm.update(); o.walk(0,PRE_UPDATE,true,true,false); o.walk(0,UPDATE,true,true,false); o.walk(0,POST_UPDATE,false,false,false); }
    else if (which==1){ ctx.consumeMethod=PRE_REACT+(int)(g()%3); o.cm=ctx.consumeMethod; fsm.react(Ev{}); o.consumed=false; o.walk(0,PRE_REACT,!BU,true,true); o.consumed=false; o.walk(0,REACT,!BU,true,true); o.consumed=false; o.walk(0,POST_REACT,BU,false,true); }
    else { ctx.consumeMethod=QUERY; o.cm=QUERY; Ev e; fsm.query(e); o.consumed=false; o.walk(0,QUERY,!BU,false,true); }
    if (!(sink==o.out)) { ++mism; if (shown++<6){ std::printf("[%d] which=%d consume=(%d,m%d,inj%d)\n lib:  ",it,which,ctx.consumeState,ctx.consumeMethod,ctx.consumeInj); for(auto&r:sink) std::printf(" %d.%d%s",r.s,r.m,r.inj?"i":""); std::printf("\n model:"); for(auto&r:o.out) std::printf(" %d.%d%s",r.s,r.m,r.inj?"i":""); std::printf("\n"); } }
  }
  std::printf("iters %d mismatches %d\n", iters, mism); fsm.exit();
}
