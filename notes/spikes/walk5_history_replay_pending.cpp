// Spike: guards / rounds segmentation + model over approved rounds (C02/C04)
#define HFSM2_ENABLE_ALL
#define HFSM2_ENABLE_ASSERT
#include <hfsm2/machine.hpp>
#include "model.hpp"
#include <random>
#include <map>
struct Ctx;
struct ScriptRNG { float next() noexcept; Ctx* ctx = nullptr; };
using Config = hfsm2::Config::ContextT<Ctx&>::ManualActivation::RandomT<ScriptRNG>;
using M = hfsm2::MachineT<Config>;
template <int N> struct St;
using FSM = M::Root<St<0>,
  M::Composite<St<1>, St<2>, St<3>, M::Resumable<St<4>, St<5>, St<6>, St<7>>>,
  M::Orthogonal<St<8>, M::Selectable<St<9>, St<10>, St<11>>, M::Utilitarian<St<12>, St<13>, St<14>, St<15>>, M::Random<St<16>, St<17>, St<18>>, St<19> >,
  M::CompositePeers<St<21>, St<22>>,
  M::Composite<St<23>, M::Composite<St<24>, St<25>, M::Composite<St<26>, St<27>, St<28>>>, St<29>>
>;
static const int NS = 30;
enum EvK { E_XGUARD, E_NGUARD, E_ENTER, E_EXIT, E_REENTER, E_REQ, E_CANCEL, E_ROUND };
struct TEv { EvK k; int s; int a, b; };
struct Act { bool cancel=false; int type=-1; int dest=-1; bool used=false; };
struct PT { char pe[NS], px[NS], pc[NS]; };
struct Ctx { std::vector<PT> pts; unsigned char sel[NS]; float util[NS]; signed char rank[NS]; float rnd=0.5f; int breaks=0; std::vector<TEv> tr; Act xg[NS], ng[NS]; int issuedInRound=0; int rounds=0; bool inStep=false; };
float ScriptRNG::next() noexcept { return ctx->rnd; }
static Ctx* g_ctx=nullptr;
extern "C" void hfsm2_verif_break(const char* file, int line) noexcept { if (g_ctx) ++g_ctx->breaks; static int n=0; if (n++<10) std::fprintf(stderr, "BREAK %s:%d\n", file, line); }
template <int N> struct St : FSM::State {
  hfsm2::Prong select(const Control& c) { return c.context().sel[N]; }
  int8_t rank(const Control& c) { return c.context().rank[N]; }
  float utility(const Control& c) { return c.context().util[N]; }
  void guard(GuardControl& c, EvK k, Act& a) { Ctx& x=c.context();
    if (x.rounds==0 || (c.requests().count()==0 && x.issuedInRound>0)) { ++x.rounds; x.issuedInRound=0; x.tr.push_back(TEv{E_ROUND,-1,(int)c.pendingTransitions().count(),0}); for (unsigned i=0;i<c.pendingTransitions().count();++i) x.tr.push_back(TEv{E_REQ,-2,(int)c.pendingTransitions()[i].type,(int)c.pendingTransitions()[i].destination}); PT pt; for (int i=0;i<NS;++i){ pt.pe[i]=c.isPendingEnter((hfsm2::StateID)i); pt.px[i]=c.isPendingExit((hfsm2::StateID)i); pt.pc[i]=c.isPendingChange((hfsm2::StateID)i);} x.pts.push_back(pt); }
    x.tr.push_back(TEv{k,N,0,0});
    if (!a.used) { a.used=true; if (a.cancel) { c.cancelPendingTransitions(); x.tr.push_back(TEv{E_CANCEL,N,0,0}); }
      if (a.type>=0) { hfsm2::StateID d=(hfsm2::StateID)a.dest; switch(a.type){case 0:c.changeTo(d);break;case 1:c.restart(d);break;case 2:c.resume(d);break;case 3:c.select(d);break;case 4:c.utilize(d);break;case 5:c.randomize(d);break;case 6:c.schedule(d);break;} ++x.issuedInRound; x.tr.push_back(TEv{E_REQ,N,a.type,a.dest}); } } }
  void entryGuard(GuardControl& c) { guard(c, E_NGUARD, c.context().ng[N]); }
  void exitGuard(GuardControl& c) { guard(c, E_XGUARD, c.context().xg[N]); }
  void enter(PlanControl& c) { c.context().tr.push_back(TEv{E_ENTER,N,0,0}); }
  void exit(PlanControl& c) { c.context().tr.push_back(TEv{E_EXIT,N,0,0}); }
  void reenter(PlanControl& c) { c.context().tr.push_back(TEv{E_REENTER,N,0,0}); }
};
using namespace mdl;
static Tree buildTree() {
  Tree t; t.n.resize(NS);
  auto mk=[&](int id, Kind k, Strat s, bool headless, std::vector<int> subs){ Node& n=t.n[id]; n.id=id;n.kind=k;n.strat=s;n.headless=headless;n.subs=subs; n.compo=-1; };
  for (int i=0;i<NS;++i) { mk(i,LEAF,S_COMPOSITE,false,{}); t.n[i].parent=-1; t.n[i].prong=0; }
  mk(0,COMPO,S_COMPOSITE,false,{1,8,20,23});
  mk(1,COMPO,S_COMPOSITE,false,{2,3,4}); mk(4,COMPO,S_RESUMABLE,false,{5,6,7});
  mk(8,ORTHO,S_COMPOSITE,false,{9,12,16,19}); mk(9,COMPO,S_SELECTABLE,false,{10,11}); mk(12,COMPO,S_UTILITARIAN,false,{13,14,15}); mk(16,COMPO,S_RANDOM,false,{17,18});
  mk(20,COMPO,S_COMPOSITE,true,{21,22});
  mk(23,COMPO,S_COMPOSITE,false,{24,29}); mk(24,COMPO,S_COMPOSITE,false,{25,26}); mk(26,COMPO,S_COMPOSITE,false,{27,28});
  int ci=0; for (int i=0;i<NS;++i){ if(t.n[i].kind==COMPO) t.n[i].compo=ci++; for(size_t k=0;k<t.n[i].subs.size();++k){t.n[t.n[i].subs[k]].parent=i;t.n[t.n[i].subs[k]].prong=(int)k;} }
  t.compoCount=ci; return t;
}
int main(int argc, char** argv) {
  unsigned seed = argc>1? atoi(argv[1]):1; int iters = argc>2? atoi(argv[2]):100000;
  Quirks q; q.earlyStop=true; q.reenterNoResumable=true; q.headlessZero=true;
  Tree t=buildTree(); Ctx ctx{}; g_ctx=&ctx; for (int i=0;i<NS;++i){ctx.util[i]=1.0f;}
  ScriptRNG rng; rng.ctx=&ctx; FSM::Instance fsm{ctx, rng};
  Ctx ctx2{}; for (int i=0;i<NS;++i){ctx2.util[i]=1.0f;} ScriptRNG rng2; rng2.ctx=&ctx2; FSM::Instance rep{ctx2, rng2}; rep.enter(); long histMism=0, replMismA=0, replMismR=0, guardCov=0, ltMism=0, replayed=0; int hshown=0;
  Env env; env.select=[&](int s){return (int)ctx.sel[s];}; env.utility=[&](int s){return ctx.util[s];}; env.rank=[&](int s){return t.n[s].headless?0:(int)ctx.rank[s];}; env.rnd=[&](){return ctx.rnd;};
  Model m(t, env); m.q=q; std::mt19937 g(seed);
  auto readCfg=[&](){ Cfg c; c.active.assign(t.compoCount,-1); c.resumable.assign(t.compoCount,-1); for (int i=0;i<NS;++i){ const Node& n=t.n[i]; if (n.parent>=0 && t.n[n.parent].kind==COMPO){ int ci=t.n[n.parent].compo; if (fsm.isActive((hfsm2::StateID)i)) c.active[ci]=n.prong; if (fsm.isResumable((hfsm2::StateID)i)) c.resumable[ci]=n.prong; } } return c; };
  auto show=[&](const Cfg& c){ std::string s; for(int i=0;i<t.compoCount;++i){ s+= std::to_string(c.active[i])+"/"+std::to_string(c.resumable[i])+" "; } return s; };
  auto randReq=[&](int& type,int& dest){ type=g()%7; dest=1+g()%(NS-1); if (type==3 && t.n[dest].kind!=LEAF) dest=9; };
  fsm.enter(); m.initial(); m.cfg=readCfg();
  int mism=0, shown=0; long roundsTotal=0, vetoed=0, multi=0, limitHit=0; std::map<std::string,int> cls;
  for (int it=0; it<iters; ++it) {
    for (int i=0;i<NS;++i){ ctx.util[i] = (float)(1+g()%4); ctx.rank[i]=(signed char)(g()%2); int w = t.n[i].kind==COMPO? (int)t.n[i].subs.size():1; ctx.sel[i]=(unsigned char)(g()%w); ctx.xg[i]=Act{}; ctx.ng[i]=Act{}; } ctx.rnd = (float)(g()%1000)/1000.f;
    int na = g()%4; for (int k=0;k<na;++k){ Act a; a.cancel = g()%2; if (g()%2 || !a.cancel) randReq(a.type,a.dest); (g()%2? ctx.xg: ctx.ng)[g()%NS]=a; }
    int ty,de; randReq(ty,de); hfsm2::StateID d=(hfsm2::StateID)de;
    switch(ty){case 0: fsm.changeTo(d);break;case 1:fsm.restart(d);break;case 2:fsm.resume(d);break;case 3:fsm.select(d);break;case 4:fsm.utilize(d);break;case 5:fsm.randomize(d);break;case 6:fsm.schedule(d);break;}
    ctx.tr.clear(); ctx.pts.clear(); bool wasActive[NS]; for(int i=0;i<NS;++i) wasActive[i]=fsm.isActive((hfsm2::StateID)i); ctx.rounds=0; ctx.issuedInRound=0; int b0=ctx.breaks; Cfg before=m.cfg;
    fsm.update();
    // segment rounds from trace
    struct Round { std::vector<Req> pend; std::vector<Req> issued; bool cancelled=false; }; std::vector<Round> rs;
    bool lifecycleSeen=false, guardAfterLifecycle=false;
    for (auto& e: ctx.tr) { if (e.k==E_ROUND) rs.push_back(Round{}); else if (e.k==E_REQ && e.s==-2) rs.back().pend.push_back(Req{(TType)e.a,e.b}); else if (e.k==E_CANCEL) rs.back().cancelled=true; else if (e.k==E_REQ && e.s>=0 && !rs.empty()) rs.back().issued.push_back(Req{(TType)e.a,e.b}); else if (e.k==E_ENTER||e.k==E_EXIT||e.k==E_REENTER) lifecycleSeen=true; else if ((e.k==E_XGUARD||e.k==E_NGUARD) && lifecycleSeen) guardAfterLifecycle=true; }
    roundsTotal+=rs.size(); if (rs.size()>1) ++multi; for (auto&r:rs) if (r.cancelled) ++vetoed; if (rs.size()>=4) ++limitHit;
    // model: if no guard round observed: the single external request (may be schedule or no-op)
    m.req.assign(t.compoCount,-1); m.remain.assign(t.compoCount,0); bool any=false;
    if (rs.empty()) { Req r{(TType)ty,de}; m.applyOne(r); }
    else for (auto& r: rs) { std::vector<int> backup=m.req; for (auto& p: r.pend) m.applyOne(p); if (r.cancelled) m.req=backup; else any=true; }
    if (!rs.empty() && !rs.back().issued.empty() && rs.size()<4) { for (auto& p: rs.back().issued) m.applyOne(p); }
    if (any) m.commit(0); m.req.assign(t.compoCount,-1);
    // ---- C13: pending queries, single approved round with single request
    { static long n=0, peFP=0, peFN=0, pxFP=0, pxFN=0, pcFP=0, pcFN=0, idle=0; 
      if (rs.size()==1 && !rs[0].cancelled && rs[0].pend.size()==1 && ctx.pts.size()==1) { ++n; const PT& p=ctx.pts[0];
        for (int i=0;i<NS;++i) { bool now=fsm.isActive((hfsm2::StateID)i); bool ent=!wasActive[i]&&now, ext=wasActive[i]&&!now; bool touched=false; for(auto&e:ctx.tr) if((e.k==E_ENTER||e.k==E_EXIT||e.k==E_REENTER)&&e.s==i) touched=true; if (t.n[i].headless) continue;
          if (ent && !p.pe[i]) ++peFN; if (!ent && p.pe[i] && !(touched)) ++peFP; if (ext && !p.px[i]) ++pxFN; if (!ext && p.px[i] && !touched) ++pxFP; if ((ent||ext) && !p.pc[i]) ++pcFN; if (!(ent||ext) && p.pc[i] && !touched) ++pcFP; } }
      for (int i=0;i<NS;++i) if (fsm.isPendingEnter((hfsm2::StateID)i)||fsm.isPendingExit((hfsm2::StateID)i)||fsm.isPendingChange((hfsm2::StateID)i)) { ++idle; break; }
      if (it==iters-1) std::printf("C13: steps %ld  enter FP %ld FN %ld | exit FP %ld FN %ld | change FP %ld FN %ld | idle-steps-with-pending-true %ld\n", n, peFP, peFN, pxFP, pxFN, pcFP, pcFN, idle); }
    // ---- C09: history
    { std::vector<Req> expect; for (auto& r: rs) if (!r.cancelled) for (auto& p: r.pend) expect.push_back(p);
      const auto& pt=fsm.previousTransitions(); bool okH = pt.count()==expect.size(); for (unsigned i=0;okH&&i<pt.count();++i) okH = ((int)pt[i].type==(int)expect[i].type && (int)pt[i].destination==expect[i].dest);
      if (!okH) { ++histMism; if (hshown++<4) { std::printf("HIST [%d] lib:",it); for(unsigned i=0;i<pt.count();++i) std::printf(" (%d->%d)",(int)pt[i].type,(int)pt[i].destination); std::printf(" expect:"); for(auto&p:expect) std::printf(" (%d->%d)",(int)p.type,p.dest); std::printf(" rounds=%zu\n",rs.size()); } }
      // lastTransitionTo for entered states when exactly one recorded
      if (pt.count()==1) for (auto& e: ctx.tr) if (e.k==E_ENTER) { if (fsm.lastTransitionTo((hfsm2::StateID)e.s) != &pt[0]) { ++ltMism; { int pr=t.n[e.s].parent; static std::map<std::string,int> lt; std::string k=std::string("type")+std::to_string((int)pt[0].type)+" parentStrat"+std::to_string(pr>=0&&t.n[pr].kind==COMPO?(int)t.n[pr].strat:-1); lt[k]++; if (it==iters-1||it%10000==9999) { std::printf("LTCLASS @%d:",it); for(auto&kv:lt) std::printf(" [%s]=%d",kv.first.c_str(),kv.second); std::printf("\n"); } } static int q=100; if (q++<12) std::printf("LT [%d] state %d entered by (%d->%d): lastTransitionTo=%s rounds=%zu\n", it, e.s, (int)pt[0].type,(int)pt[0].destination, fsm.lastTransitionTo((hfsm2::StateID)e.s)?"other":"null", rs.size()); } }
      // replay on replica
      ctx2=ctx; ctx2.tr.clear(); for(int i=0;i<NS;++i){ctx2.xg[i]=Act{};ctx2.ng[i]=Act{};}
      if (pt.count()) { ++replayed; rep.replayTransitions(pt); }
      bool sa=true, sr=true; for (int i=0;i<NS;++i){ if (fsm.isActive((hfsm2::StateID)i)!=rep.isActive((hfsm2::StateID)i)) sa=false; if (fsm.isResumable((hfsm2::StateID)i)!=rep.isResumable((hfsm2::StateID)i)) sr=false; }
      bool single = rs.size()<=1; bool hasSched = (ty==6); for (auto&r:rs){ for(auto&p:r.pend) if(p.type==T_SCHEDULE) hasSched=true; for(auto&p:r.issued) if(p.type==T_SCHEDULE) hasSched=true; }
      if (!sa) { ++replMismA; if (hshown++<8) std::printf("REPLAY-ACTIVE [%d] rounds=%zu\n",it,rs.size()); }
      if (!sr && single && !hasSched) { ++replMismR; if (hshown++<8) { std::printf("REPLAY-RESUM [%d] rounds=%zu ext=(%d->%d) rec:",it,rs.size(),ty,de); for(unsigned i=0;i<pt.count();++i) std::printf(" (%d->%d)",(int)pt[i].type,(int)pt[i].destination); std::printf("\n"); } }
      if (!sa || !sr) { // resync replica via save/load
        FSM::Instance::SerialBuffer b; fsm.save(b); rep.load(b); }
    }
    // ---- C04c: every exited/entered/reentered state had its guard in the last approved round
    { int lastApproved=-1, ri=-1; for (auto& e: ctx.tr) { if (e.k==E_ROUND) ++ri; } ri=-1; std::vector<int> appr; for (size_t k=0;k<rs.size();++k) if(!rs[k].cancelled) lastApproved=(int)k;
      std::vector<char> xg(NS,0), ng(NS,0); for (auto& e: ctx.tr) { if (e.k==E_ROUND) ++ri; else if (ri==lastApproved && e.k==E_XGUARD) xg[e.s]=1; else if (ri==lastApproved && e.k==E_NGUARD) ng[e.s]=1; }
      for (auto& e: ctx.tr) { if (e.k==E_EXIT && !xg[e.s]) ++guardCov; if (e.k==E_ENTER && !ng[e.s]) ++guardCov; if (e.k==E_REENTER && !(ng[e.s])) ++guardCov; } }
    Cfg lc=readCfg(); bool same=(lc.active==m.cfg.active), sameR=(lc.resumable==m.cfg.resumable);
    if (!same||!sameR||guardAfterLifecycle||ctx.breaks!=b0) { ++mism; std::string key=std::string(same?"":"ACTIVE ")+(sameR?"":"RESUM ")+(guardAfterLifecycle?"ORDER ":"")+(ctx.breaks!=b0?"BREAK ":"")+"rounds="+std::to_string(rs.size()); cls[key]++;
      if (shown++<6) { std::printf("[%d] %s ext=(%d->%d)\n", it, key.c_str(), ty, de); for (auto& r: rs){ std::printf("   round%s:", r.cancelled?" (cancelled)":""); for(auto&p:r.pend) std::printf(" (%d->%d)",(int)p.type,p.dest); std::printf("\n"); } std::printf("  before %s\n  lib    %s\n  model  %s\n", show(before).c_str(), show(lc).c_str(), show(m.cfg).c_str()); }
      m.cfg=lc; }
  }
  std::printf("history mismatches %ld, lastTransitionTo mismatches %ld, replays %ld, replay active mism %ld, replay resumable mism (single round,no schedule) %ld, guard coverage misses %ld\n", histMism, ltMism, replayed, replMismA, replMismR, guardCov);
  std::printf("iters %d mismatches %d rounds %ld multi-round steps %ld vetoed rounds %ld steps with >=4 rounds %ld\n", iters, mism, roundsTotal, multi, vetoed, limitHit); for (auto&kv:cls) std::printf("  %s: %d\n", kv.first.c_str(), kv.second);
}
