// Spike: plan processing model (C06) vs library
#define HFSM2_ENABLE_ALL
#define HFSM2_ENABLE_LOG_INTERFACE
#define HFSM2_ENABLE_ASSERT
#include <hfsm2/machine.hpp>
#include <random>
#include <vector>
#include <map>
#include <cstdio>
#include <string>
#include <array>
#include <functional>
struct Ctx { int mark[16]; std::vector<std::pair<int,int>> cb; bool overridePS=false; };
using Config = hfsm2::Config::ContextT<Ctx&>::ManualActivation;
using M = hfsm2::MachineT<Config>;
template <int N> struct St;
using FSM = M::Root<St<0>,
  M::Composite<St<1>, St<2>, St<3>, M::Composite<St<4>, St<5>, St<6>>>,
  M::Orthogonal<St<7>, St<8>, M::Composite<St<9>, St<10>, St<11>>, St<12>>,
  St<13>
>;
static const int NS=14;
static const int parent[NS]={-1,0,1,1,1,4,4,0,7,7,9,9,7,0};
static const bool isRegion[NS]={1,1,0,0,1,0,0,1,0,1,0,0,0,0};
static const bool isOrtho[NS]={0,0,0,0,0,0,0,1,0,0,0,0,0,0};
static const int regionOf[NS]={0,1,-1,-1,2,-1,-1,3,-1,4,-1,-1,-1,-1}; // region id by head state
static const int regionHead[5]={0,1,4,7,9};
static const int regionSize[5]={14,6,3,6,3};
static int g_breaks=0;
extern "C" void hfsm2_verif_break(const char* f, int l) noexcept { ++g_breaks; static int n=0; if (n++<10) std::fprintf(stderr,"BREAK %s:%d\n", f,l); }
template <int N> struct St : FSM::State {
  void update(FullControl& c) { int m=c.context().mark[N]; if (m==1) c.succeed(); else if (m==2) c.fail(); }
  void planSucceeded(FullControl& c) { c.context().cb.push_back({N,1}); if (!c.context().overridePS) FSM::State::planSucceeded(c); }
  void planFailed(FullControl& c) { c.context().cb.push_back({N,2}); if (!c.context().overridePS) FSM::State::planFailed(c); }
};
struct Log : M::LoggerInterface { std::vector<std::array<int,3>> tr; void recordTransition(const Context&, const StateID origin, const TransitionType t, const StateID target) override { tr.push_back({(int)origin,(int)t,(int)target}); } };
struct Task { int origin, dest, type; bool operator==(const Task&o)const{return origin==o.origin&&dest==o.dest&&type==o.type;} };
int main(int argc,char**argv){
  unsigned seed=argc>1?atoi(argv[1]):1; int iters=argc>2?atoi(argv[2]):50000; bool kindQuirk = !(argc>3 && argv[3][0]=='0'); bool leak = (argc>4 && argv[4][0]=='1');
  Ctx ctx{}; Log log; FSM::Instance fsm{ctx,&log}; fsm.enter(); std::mt19937 g(seed);
  auto readPlan=[&](int r){ std::vector<Task> v; auto p=fsm.plan((hfsm2::RegionID)r); for (auto it=p.begin(); it; ++it) v.push_back(Task{(int)it->origin,(int)it->destination,(int)it->type}); return v; };
  bool planExists[5]={0,0,0,0,0};
  int mism=0, shown=0; long execs=0, ps=0, pf=0; std::map<std::string,int> cls;
  for (int it=0; it<iters; ++it){
    // maybe move
    if (g()%3==0) { fsm.immediateChangeTo((hfsm2::StateID)(1+g()%(NS-1))); }
    // maybe append tasks
    int na=g()%3; for(int k=0;k<na;++k){ int r=g()%5; int lo=regionHead[r], hi=lo+regionSize[r]; int o=lo+1+g()%(regionSize[r]-1); int d=(g()%4==0)? (int)(1+g()%(NS-1)) : (int)(lo+1+g()%(regionSize[r]-1)); if (g()%8==0) d=o; auto p=fsm.plan((hfsm2::RegionID)r); bool ok=false; switch(g()%5){case 0: ok=p.change((hfsm2::StateID)o,(hfsm2::StateID)d);break;case 1:ok=p.restart((hfsm2::StateID)o,(hfsm2::StateID)d);break;case 2:ok=p.resume((hfsm2::StateID)o,(hfsm2::StateID)d);break;case 3:ok=p.schedule((hfsm2::StateID)o,(hfsm2::StateID)d);break;case 4:ok=p.change((hfsm2::StateID)o,(hfsm2::StateID)d);break;} if (ok) planExists[r]=true; (void)hi; }
    if (g()%50==0) { int r=g()%5; fsm.plan((hfsm2::RegionID)r).clear(); }
    for (int i=0;i<NS;++i) { unsigned x=g()%10; ctx.mark[i]= x<2?1:(x==2?2:0); }
    ctx.overridePS = false;
    bool act[NS]; for(int i=0;i<NS;++i) act[i]=fsm.isActive((hfsm2::StateID)i);
    std::vector<Task> plans[5]; for(int r=0;r<5;++r) plans[r]=readPlan(r);
    // model
    int mk[NS]; for(int i=0;i<NS;++i) mk[i]= act[i]? ctx.mark[i]:0; mk[0]=0; // root cannot succeed (ROOT_ID < stateId)
    std::vector<std::array<int,3>> expReq; std::vector<std::pair<int,int>> expCb; std::vector<Task> expPlans[5]; for(int r=0;r<5;++r) expPlans[r]=plans[r];
    // F13 emulation: control-wide accumulator, last mark wins, cleared when a region scope is left
    int hstat[NS]; int sstat[NS]; for(int i=0;i<NS;++i){hstat[i]=0;sstat[i]=0;}
    if (leak) { int acc=0; std::function<int(int)> visit=[&](int s)->int{ // returns status returned by deepUpdate of s
        if (!isRegion[s]) { if (s>0 && mk[s]) acc=mk[s]; return acc; }
        if (s>0 && mk[s]) acc=mk[s]; int h=acc; if (h>hstat[s]) hstat[s]=h;
        for(int c=s+1;c<NS;++c) if (parent[c]==s && act[c]) { int r=visit(c); if (r>sstat[s]) sstat[s]=r; }
        acc=0; return h; }; visit(0); }
    std::function<int(int)> evalState=[&](int s)->int{
      if (!isRegion[s]) return mk[s]==2?2:(mk[s]==1?1:0);
      int r=regionOf[s]; int h = mk[s]==2?2:(mk[s]==1?1:0); if (leak && hstat[s]>h) h=hstat[s];
      int sres= leak? sstat[s]:0; for(int c=s+1;c<NS;++c) if (parent[c]==s && act[c]) { int cr=evalState(c); if (cr>sres) sres=cr; }
      if (h) return h;
      if (!sres || !planExists[r]) return sres;
      if (sres==2) { expCb.push_back({s,2}); if (s>0) mk[s]=2; return 2; }
      if (!expPlans[r].empty()) { std::vector<Task> rest; bool stop=false; std::vector<int> clearLater; for (auto& t: expPlans[r]) { if (stop || !act[t.origin]) { stop=true; rest.push_back(t); continue; } if (mk[t.origin]==1) { expReq.push_back({s, kindQuirk?0:t.type, t.dest}); if (t.origin==t.dest) mk[t.origin]=0; else clearLater.push_back(t.origin); } else rest.push_back(t); } for(int o:clearLater) mk[o]=0; expPlans[r]=rest; return 0; }
      expCb.push_back({s,1}); if (s>0) mk[s]=1; return 1; };
    ctx.cb.clear(); log.tr.clear(); int b0=g_breaks;
    fsm.update();
    evalState(0);
    // compare: plan-issued requests = all logged transitions (script issues none)
    bool okReq = (log.tr==expReq); bool okCb=(ctx.cb==expCb); bool okPlans=true;
    // plans after: need to read after update but transitions may have ... plans unaffected by transitions except exit clearing? compare
    for(int r=0;r<5;++r){ auto now=readPlan(r); if (!(now==expPlans[r])) okPlans=false; }
    execs+=expReq.size(); for(auto&c:expCb) (c.second==1?ps:pf)++;
    if (!okReq||!okCb||!okPlans||g_breaks!=b0){ ++mism; std::string key=std::string(okReq?"":"REQ ")+(okCb?"":"CB ")+(okPlans?"":"PLANS ")+(g_breaks!=b0?"BREAK":""); cls[key]++;
      if (shown++<8){ std::printf("[%d] %s\n  active:",it,key.c_str()); for(int i=0;i<NS;++i) if(act[i]) std::printf(" %d",i); std::printf("\n  marks:"); for(int i=0;i<NS;++i) if(act[i]&&ctx.mark[i]) std::printf(" %d:%s",i,ctx.mark[i]==1?"S":"F"); std::printf("\n  plans:"); for(int r=0;r<5;++r) if(planExists[r]){ std::printf(" R%d[",r); for(auto&t:plans[r]) std::printf("%d>%d/%d ",t.origin,t.dest,t.type); std::printf("]"); } std::printf("\n  lib req:"); for(auto&x:log.tr) std::printf(" (%d:%d->%d)",x[0],x[1],x[2]); std::printf("  cb:"); for(auto&c:ctx.cb) std::printf(" %d:%s",c.first,c.second==1?"PS":"PF"); std::printf("\n  exp req:"); for(auto&x:expReq) std::printf(" (%d:%d->%d)",x[0],x[1],x[2]); std::printf("  cb:"); for(auto&c:expCb) std::printf(" %d:%s",c.first,c.second==1?"PS":"PF"); std::printf("\n"); } }
  }
  std::printf("iters %d mismatches %d; expected executions %ld planSucceeded %ld planFailed %ld\n",iters,mism,execs,ps,pf); for(auto&kv:cls) std::printf("  %s: %d\n",kv.first.c_str(),kv.second);
}
