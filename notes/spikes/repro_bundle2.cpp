// repro bundle 2: F3 rng-before-init, F5 rounding, F6 pending queries, plan task kind, headless select
#define HFSM2_ENABLE_ALL
#define HFSM2_ENABLE_ASSERT
#include <hfsm2/machine.hpp>
#include <cstdio>
#include <cstring>
#include <new>
static int breaks=0;
extern "C" void hfsm2_verif_break(const char* f, int l) noexcept { ++breaks; std::fprintf(stderr,"BREAK %s:%d\n", f,l); }
namespace f3 {
using M = hfsm2::Machine; // automatic, builtin RNGT<float>
struct A; struct B; struct C; struct D;
using FSM = M::RandomPeerRoot<A,B,C,D>;
struct A:FSM::State{}; struct B:FSM::State{}; struct C:FSM::State{}; struct D:FSM::State{};
int run(unsigned char fill){ alignas(64) static unsigned char buf[sizeof(FSM::Instance)+64]; std::memset(buf, fill, sizeof buf); FSM::Instance* p = new (buf) FSM::Instance{}; int a = p->activeSubState(0); p->~InstanceT(); return a; }
}
namespace f5 {
struct Ctx { float u[8]; float r; };
struct RNG { float next() noexcept { return *r; } float* r; };
using M = hfsm2::MachineT<hfsm2::Config::ContextT<Ctx&>::RandomT<RNG>>;
template<int N> struct S;
using FSM = M::PeerRoot<S<1>, M::Random<S<2>, S<3>, S<4>, S<5>, S<6>, S<7>>>;
template<int N> struct S : FSM::State { float utility(const Control& c) { return c.context().u[N]; } };
}
namespace f6 {
struct Ctx { int pe[8], px[8], pc[8]; bool seen=false; };
using M = hfsm2::MachineT<hfsm2::Config::ContextT<Ctx&>>;
template<int N> struct S;
using FSM = M::PeerRoot< M::Composite<S<1>, S<2>, S<3>>, M::Composite<S<4>, S<5>, S<6>> >;
template<int N> struct S : FSM::State { void exitGuard(GuardControl& c) { if (c.context().seen) return; c.context().seen=true; for (int i=0;i<7;++i){ c.context().pe[i]=c.isPendingEnter((hfsm2::StateID)i); c.context().px[i]=c.isPendingExit((hfsm2::StateID)i); c.context().pc[i]=c.isPendingChange((hfsm2::StateID)i);} } };
}
namespace pk {
struct Ctx { int dummy; };
using M = hfsm2::MachineT<hfsm2::Config::ContextT<Ctx&>>;
template<int N> struct S;
using FSM = M::Root<S<0>, S<1>, M::Resumable<S<2>, S<3>, S<4>>>;
template<int N> struct S : FSM::State { void update(FullControl& c) { if (N==1) c.succeed(); } };
}
int main(){
  std::fprintf(stderr,"F3: fill00 -> %d, fillFF -> %d, fillA5 -> %d, fill3C -> %d\n", f3::run(0x00), f3::run(0xFF), f3::run(0xA5), f3::run(0x3C));
  { using namespace f5; Ctx c{}; float r=0; RNG g{&r}; FSM::Instance m{c,g}; int none=0, tried=0; unsigned s=12345; for (int it=0; it<20000; ++it){ for(int i=2;i<8;++i){ s=s*1664525u+1013904223u; c.u[i]= (float)((s>>8)%1000+1)/ (float)(((s>>20)%97)+1); } r = 0.99999994f; tried++; breaks=0; m.immediateRandomize(FSM::stateId<S<2>>()); int a=m.activeSubState(FSM::stateId<S<2>>()); if (a==hfsm2::INVALID_PRONG || breaks) { ++none; if (none==1) std::fprintf(stderr,"F5 first: u=%g %g %g %g %g %g active=%d\n", c.u[2],c.u[3],c.u[4],c.u[5],c.u[6],c.u[7], a); m.immediateChangeTo(FSM::stateId<S<1>>()); } else m.immediateChangeTo(FSM::stateId<S<1>>()); } std::fprintf(stderr,"F5: none-selected %d / %d\n", none, tried); }
  { using namespace f6; Ctx c{}; FSM::Instance m{c}; m.changeTo(FSM::stateId<S<3>>()); m.update(); std::fprintf(stderr,"F6 (request 2->3 in region1; region 4 inactive):\n id: "); for(int i=0;i<7;++i) std::fprintf(stderr," %d",i); std::fprintf(stderr,"\n pe: "); for(int i=0;i<7;++i) std::fprintf(stderr," %d",c.pe[i]); std::fprintf(stderr,"\n px: "); for(int i=0;i<7;++i) std::fprintf(stderr," %d",c.px[i]); std::fprintf(stderr,"\n pc: "); for(int i=0;i<7;++i) std::fprintf(stderr," %d",c.pc[i]); std::fprintf(stderr,"\n outside guards: px(1)=%d pc(1)=%d px(3)=%d\n", m.isPendingExit(1), m.isPendingChange(1), m.isPendingExit(3)); }
  { using namespace pk; Ctx c{}; FSM::Instance m{c}; m.immediateChangeTo(FSM::stateId<S<4>>()); m.immediateChangeTo(FSM::stateId<S<1>>()); /* region 2 resumable = S4 */ m.plan().restart(FSM::stateId<S<1>>(), FSM::stateId<S<2>>()); m.update(); std::fprintf(stderr,"plan kind: task restart(1->2): active S3=%d S4=%d (restart => S3 expected)\n", m.isActive(3), m.isActive(4)); }
}
