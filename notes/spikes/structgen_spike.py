import random, sys
def gen_tree(rng, depth, budget):
    # returns node dict: kind in leaf/compo/ortho, strat, headless, subs
    if depth==0 or budget[0]<=2 or rng.random()<0.35:
        budget[0]-=1
        return dict(kind='leaf')
    kind = 'ortho' if rng.random()<0.3 else 'compo'
    w = rng.choice([1,2,2,3,3,4,5,7]) if kind=='ortho' else rng.choice([2,2,3,3,4,5,6,9])
    if kind=='ortho' and w<1: w=1
    headless = rng.random()<0.3
    budget[0]-=1
    subs=[gen_tree(rng, depth-1, budget) for _ in range(w)]
    return dict(kind=kind, strat=rng.choice(['Composite','Resumable','Selectable','Utilitarian','Random']), headless=headless, subs=subs)
def number(node, st):
    node['id']=st['n']; st['n']+=1
    if node['kind']!='leaf':
        node['rid']=st['r']; st['r']+=1
        if node['kind']=='compo': st['c']+=1; st['p']+=len(node['subs'])
        else: st['o']+=1; st['u']+=(len(node['subs'])+7)//8
        for s in node['subs']: number(s, st)
def emit(node, pfx, root=False):
    if node['kind']=='leaf': return f"{pfx}<{node['id']}>"
    name = {'compo': node['strat'], 'ortho':'Orthogonal'}[node['kind']]
    if root:
        nm = {'Composite':'Root','Resumable':'ResumableRoot','Selectable':'SelectableRoot','Utilitarian':'UtilitarianRoot','Random':'RandomRoot'}[node['strat']] if node['kind']=='compo' else 'OrthogonalRoot'
        if node['headless']: nm = nm.replace('Root','PeerRoot')
        name=nm
    elif node['headless']: name += 'Peers'
    args = ([] if node['headless'] else [f"{pfx}<{node['id']}>"]) + [emit(s,pfx) for s in node['subs']]
    return f"M::{name}<" + ", ".join(args) + ">"
def walk(node):
    yield node
    for s in node.get('subs',[]): yield from walk(s)
def bitcontain(v):
    for i in range(8):
        if v <= 1<<i: return i
    return 8
def bits(node):
    if node['kind']=='leaf': return (0,0)
    subs=[bits(s) for s in node['subs']]
    if node['kind']=='compo':
        wb=bitcontain(len(node['subs']))
        return (max(a for a,_ in subs)+wb, sum(r for _,r in subs)+wb+1)
    return (sum(a for a,_ in subs), sum(r for _,r in subs))
rng=random.Random(int(sys.argv[1])); N=int(sys.argv[2])
print('#define HFSM2_ENABLE_ALL\n#include <hfsm2/machine.hpp>\nusing M = hfsm2::Machine;')
k=0
while k<N:
    t=gen_tree(rng, 4, [rng.choice([6,12,25,40])])
    if t['kind']=='leaf': continue
    st=dict(n=0,r=0,c=0,o=0,p=0,u=0); number(t, st)
    if st['c']<1: continue
    pfx=f"S{k}"
    print(f"template <int> struct {pfx};")
    print(f"using F{k} = {emit(t,pfx,True)};")
    for nd in walk(t):
        if not nd.get('headless'):
            print(f"static_assert(F{k}::stateId<{pfx}<{nd['id']}>>() == {nd['id']}, \"\");")
            if nd['kind']!='leaf': print(f"static_assert(F{k}::regionId<{pfx}<{nd['id']}>>() == {nd['rid']}, \"\");")
    a,r=bits(t)
    print(f"static_assert(F{k}::STATE_COUNT=={st['n']} && F{k}::REGION_COUNT=={st['r']} && F{k}::COMPO_COUNT=={st['c']} && F{k}::ORTHO_COUNT=={st['o']} && F{k}::ORTHO_UNITS=={st['u']} && F{k}::Apex::COMPO_PRONGS=={st['p']} && F{k}::TASK_CAPACITY=={2*st['p']} && F{k}::SERIAL_BITS=={1+a+r}, \"\");")
    k+=1
print('int main(){}')
