// C12 tolerance rule check (flat random region, width 6) on repaired header
#define HFSM2_ENABLE_ALL
#include <hfsm2/machine.hpp>
#include <cstdio>
#include <cmath>
#include <random>
struct Ctx { float u[8]; signed char rk[8]; float r; int calls; };
struct RNG { float next() noexcept { ++c->calls; return c->r; } Ctx* c; };
using M = hfsm2::MachineT<hfsm2::Config::ContextT<Ctx&>::RandomT<RNG>>;
template<int N> struct S;
using FSM = M::PeerRoot<S<1>, M::Random<S<2>, S<3>, S<4>, S<5>, S<6>, S<7>, S<8>>>;
template<int N> struct S : FSM::State { float utility(const Control& c) { return c.context().u[N-3]; } int8_t rank(const Control& c) { return c.context().rk[N-3]; } };
template<> struct S<1> : FSM::State {}; template<> struct S<2> : FSM::State {};
int main(){ Ctx c{}; RNG g{&c}; FSM::Instance m{c,g}; std::mt19937 rng(7); long n=0, hardZero=0, hardRank=0, none=0, outTol=0, callsBad=0, boundary=0;
 const float table[]={0.f,0.f,0.25f,0.5f,1.f,1.f,2.f,3.f,7.5f,1e-3f,123.456f,1e4f,0.1f,0.3f};
 for (int it=0; it<400000; ++it){ for(int i=0;i<6;++i){ c.u[i]=table[rng()%14]; c.rk[i]=(signed char)(rng()%3==0?1:0);} int top=-128; for(int i=0;i<6;++i) top=std::max(top,(int)c.rk[i]); long double SS=0; for(int i=0;i<6;++i) if(c.rk[i]==top) SS+=c.u[i]; if (SS<=0) { for(int i=0;i<6;++i) if(c.rk[i]==top){ c.u[i]=1.f; break;} SS=0; for(int i=0;i<6;++i) if(c.rk[i]==top) SS+=c.u[i]; }
  // choose r: boundary-focused
  float r; unsigned k=rng()%6; if (k==0) r=0.f; else if (k==1) r=std::nextafter(1.f,0.f); else if (k==2) r=std::nextafter(std::nextafter(1.f,0.f),0.f); else if (k==3) r=(float)(rng()%100000)/100000.f; else { long double cum=0; int j=rng()%6; for(int i=0;i<=j;++i) if(c.rk[i]==top) cum+=c.u[i]; float b=(float)(cum/SS); if (b>=1.f) b=std::nextafter(1.f,0.f); int d=(int)(rng()%5)-2; for(int q=0;q<std::abs(d);++q) b=std::nextafter(b, d>0?1.f:0.f); if (b>=1.f) b=std::nextafter(1.f,0.f); if (b<0) b=0; r=b; ++boundary; }
  c.r=r; c.calls=0; m.immediateRandomize(FSM::stateId<S<2>>()); int a=m.activeSubState(FSM::stateId<S<2>>()); ++n; if (c.calls!=1) ++callsBad;
  if (a<0||a>5) { ++none; m.immediateChangeTo(FSM::stateId<S<1>>()); continue; }
  if (c.u[a]<=0) ++hardZero; if (c.rk[a]!=top) ++hardRank;
  long double lo=0; for(int i=0;i<a;++i) if(c.rk[i]==top) lo+=c.u[i]; long double hi=lo+c.u[a]; long double tgt=(long double)r*SS, eps=SS*std::ldexp(1.0L,-20); if (tgt<lo-eps||tgt>hi+eps) ++outTol;
  m.immediateChangeTo(FSM::stateId<S<1>>()); }
 std::printf("cases %ld boundary %ld | none %ld zero-utility %ld wrong-rank %ld outside-tolerance %ld rng-calls!=1 %ld\n", n,boundary,none,hardZero,hardRank,outTol,callsBad); }
