#define HFSM2_ENABLE_ALL
#include <hfsm2/machine.hpp>
#include <cstdio>
using M = hfsm2::Machine;
struct A; struct B; struct C;
using FSM = M::PeerRoot<A,B,C>;
struct A:FSM::State{}; struct B:FSM::State{}; struct C:FSM::State{};
int main(){ FSM::Instance m; m.immediateChangeTo<C>(); std::printf("before reset: structure active:"); for (unsigned i=0;i<4;++i) std::printf(" %d/%d", (int)m.structure()[i].isActive, (int)m.isActive((hfsm2::StateID)i)); m.reset(); std::printf("\nafter reset:  structure active:"); for (unsigned i=0;i<4;++i) std::printf(" %d/%d", (int)m.structure()[i].isActive, (int)m.isActive((hfsm2::StateID)i)); std::printf("\n");
 hfsm2::detail::BitArrayT<5> b; b.set(); for (unsigned i=0;i<5;++i) b.clear(i); std::printf("BitArrayT<5> set();clear(all valid) -> empty()=%d\n", (int)b.empty()); }
