// Spike: payload observation points (C14) and logger timeline (C16)
#define HFSM2_ENABLE_ALL
#define HFSM2_ENABLE_LOG_INTERFACE
#include <hfsm2/machine.hpp>
#include <cstdio>
#include <vector>
struct alignas(16) Pay { int tag; float pad[3]; };
struct Ev { int k; int s; int m; long v; };
struct Ctx { std::vector<Ev>* tl; };
using Config = hfsm2::Config::ContextT<Ctx&>::ManualActivation::PayloadT<Pay>;
using M = hfsm2::MachineT<Config>;
template<int N> struct S;
using FSM = M::Root<S<0>, M::Composite<S<1>, S<2>, S<3>>, M::Orthogonal<S<4>, S<5>, M::Composite<S<6>, S<7>, S<8>>>>;
template<int N> struct S : FSM::State {
  void entryGuard(GuardControl& c) { c.context().tl->push_back(Ev{1,N,(int)hfsm2::Method::ENTRY_GUARD,0}); for (unsigned i=0;i<c.pendingTransitions().count();++i) { auto* p=c.pendingTransitions()[i].payload(); c.context().tl->push_back(Ev{2,N,(int)c.pendingTransitions()[i].destination, p? p->tag : -1}); if (p && (reinterpret_cast<uintptr_t>(p)%alignof(Pay))) c.context().tl->push_back(Ev{9,N,0,0}); } }
  void enter(PlanControl& c) { c.context().tl->push_back(Ev{1,N,(int)hfsm2::Method::ENTER,0}); for (unsigned i=0;i<c.currentTransitions().count();++i) { auto* p=c.currentTransitions()[i].payload(); c.context().tl->push_back(Ev{3,N,(int)c.currentTransitions()[i].destination, p? p->tag : -1}); } }
  void update(FullControl& c) { c.context().tl->push_back(Ev{1,N,(int)hfsm2::Method::UPDATE,0}); auto* t=c.lastTransition(); c.context().tl->push_back(Ev{4,N,t?(int)t->destination:-1, t&&t->payload()? t->payload()->tag : -1}); }
  void exit(PlanControl& c) { c.context().tl->push_back(Ev{1,N,(int)hfsm2::Method::EXIT,0}); }
};
struct Log : M::LoggerInterface { std::vector<Ev>* tl; void recordMethod(const Context&, const StateID o, const Method m) override { tl->push_back(Ev{0,(int)o,(int)m,0}); } void recordTransition(const Context&, const StateID o, const TransitionType t, const StateID d) override { tl->push_back(Ev{5,(int)o,(int)t,(long)d}); } };
int main(){ std::vector<Ev> tl; Ctx c{&tl}; Log log; log.tl=&tl; FSM::Instance m{c,&log}; m.enter(); tl.clear();
  m.changeWith(FSM::stateId<S<7>>(), Pay{42,{}}); m.restart(FSM::stateId<S<5>>()); m.update(); m.update();
  static const char* K[]={"LOG ","CALL","pend","curr","last","LOGT","","","","MISALIGNED"};
  for (auto& e: tl) std::printf("%s s=%d m/dest=%d v=%ld\n", K[e.k], e.s, e.m, e.v);
  auto* lt=m.lastTransitionTo(FSM::stateId<S<7>>()); std::printf("lastTransitionTo(7): %s tag %d; previousTransitions %u\n", lt?"set":"null", lt&&lt->payload()?lt->payload()->tag:-1, (unsigned)m.previousTransitions().count()); m.exit(); }
