#include <cstdio>
#include <cstdlib>
extern "C" void hfsm2_verif_break(const char* file, int line) noexcept {
  std::fprintf(stderr, "HFSM2_BREAK %s:%d\n", file, line);
}
