// repro bundle: F1 load-resumable, F11 consume among ortho leaf siblings, substitution limit assert, F2 queue overflow
#define HFSM2_ENABLE_ALL
#define HFSM2_ENABLE_ASSERT
#include <hfsm2/machine.hpp>
#include <cstdio>
#include <vector>
static int breaks=0;
extern "C" void hfsm2_verif_break(const char* f, int l) noexcept { ++breaks; std::fprintf(stderr,"BREAK %s:%d\n", f,l); }
struct Ctx { std::vector<int> log; int mode=0; };
using Config = hfsm2::Config::ContextT<Ctx&>::ManualActivation;
using M = hfsm2::MachineT<Config>;
template<int N> struct S;
struct Ev{};
using FSM = M::PeerRoot< M::Composite<S<1>, S<2>, S<3>>, M::Orthogonal<S<4>, S<5>, S<6>, S<7>>, S<8> >;
template<int N> struct S : FSM::State {
  using FSM::State::react;
  void react(const Ev&, EventControl& c) { c.context().log.push_back(N); if (N==5) c.consumeEvent(); }
  void entryGuard(GuardControl& c) { if (c.context().mode==1 && N==8) { c.cancelPendingTransitions(); c.changeTo(FSM::stateId<S<8>>()); } }
};
int main() {
  { // F1
    Ctx c1, c2; FSM::Instance a{c1}, b{c2}; a.enter(); b.enter();
    a.immediateChangeTo(FSM::stateId<S<3>>()); a.immediateChangeTo(FSM::stateId<S<8>>()); // a: region1 inactive, resumable S3
    b.immediateChangeTo(FSM::stateId<S<2>>()); // b: region 1 active on S2
    FSM::Instance::SerialBuffer buf; a.save(buf); b.load(buf);
    std::fprintf(stderr, "F1: a.resumable(S3)=%d b.resumable(S3)=%d b.resumable(S2)=%d active S8 a=%d b=%d\n", a.isResumable(FSM::stateId<S<3>>()), b.isResumable(FSM::stateId<S<3>>()), b.isResumable(FSM::stateId<S<2>>()), a.isActive(FSM::stateId<S<8>>()), b.isActive(FSM::stateId<S<8>>()));
    FSM::Instance::SerialBuffer buf2; b.save(buf2); std::fprintf(stderr, "F1: resave identical=%d\n", buf==buf2);
    a.exit(); b.exit();
  }
  { // F11
    Ctx c; FSM::Instance a{c}; a.enter(); a.immediateChangeTo(FSM::stateId<S<4>>()); c.log.clear(); a.react(Ev{});
    std::fprintf(stderr, "F11 react order:"); for (int x: c.log) std::fprintf(stderr, " %d", x); std::fprintf(stderr, "  (5 consumes)\n"); a.exit();
  }
  { // substitution limit
    Ctx c; FSM::Instance a{c}; a.enter(); c.mode=1; breaks=0; a.changeTo(FSM::stateId<S<8>>()); a.update(); std::fprintf(stderr, "limit: breaks=%d active8=%d\n", breaks, a.isActive(FSM::stateId<S<8>>())); c.mode=0; a.update(); std::fprintf(stderr, "limit: after next update active8=%d (leftover request applied?)\n", a.isActive(FSM::stateId<S<8>>())); a.exit();
  }
  { // F2 overflow: COMPO_COUNT = 2 -> capacity 2
    Ctx c; FSM::Instance a{c}; a.enter(); breaks=0; for (int i=0;i<6;++i) a.changeTo(FSM::stateId<S<2>>()); std::fprintf(stderr, "F2: breaks=%d\n", breaks); a.update(); a.exit();
  }
}
