// Spike: guards / rounds segmentation + model over approved rounds (C02/C04)
#define HFSM2_ENABLE_ALL
#define HFSM2_ENABLE_ASSERT
#include <hfsm2/machine.hpp>
#include "model.hpp"
#include <random>
#include <map>
struct Ctx;
struct ScriptRNG { float next() noexcept; Ctx* ctx = nullptr; };
using Config = hfsm2::Config::ContextT<Ctx&>::ManualActivation::RandomT<ScriptRNG>;
using M = hfsm2::MachineT<Config>;
template <int N> struct St;
using FSM = M::Root<St<0>,
  M::Composite<St<1>, St<2>, St<3>, M::Resumable<St<4>, St<5>, St<6>, St<7>>>,
  M::Orthogonal<St<8>, M::Selectable<St<9>, St<10>, St<11>>, M::Utilitarian<St<12>, St<13>, St<14>, St<15>>, M::Random<St<16>, St<17>, St<18>>, St<19> >,
  M::CompositePeers<St<21>, St<22>>,
  M::Composite<St<23>, M::Composite<St<24>, St<25>, M::Composite<St<26>, St<27>, St<28>>>, St<29>>
>;
static const int NS = 30;
enum EvK { E_XGUARD, E_NGUARD, E_ENTER, E_EXIT, E_REENTER, E_REQ, E_CANCEL, E_ROUND };
struct TEv { EvK k; int s; int a, b; };
struct Act { bool cancel=false; int type=-1; int dest=-1; bool used=false; };
struct Ctx { unsigned char sel[NS]; float util[NS]; signed char rank[NS]; float rnd=0.5f; int breaks=0; std::vector<TEv> tr; Act xg[NS], ng[NS]; int issuedInRound=0; int rounds=0; bool inStep=false; };
float ScriptRNG::next() noexcept { return ctx->rnd; }
static Ctx* g_ctx=nullptr;
extern "C" void hfsm2_verif_break(const char* file, int line) noexcept { if (g_ctx) ++g_ctx->breaks; static int n=0; if (n++<10) std::fprintf(stderr, "BREAK %s:%d\n", file, line); }
template <int N> struct St : FSM::State {
  hfsm2::Prong select(const Control& c) { return c.context().sel[N]; }
  int8_t rank(const Control& c) { return c.context().rank[N]; }
  float utility(const Control& c) { return c.context().util[N]; }
  void guard(GuardControl& c, EvK k, Act& a) { Ctx& x=c.context();
    if (x.rounds==0 || (c.requests().count()==0 && x.issuedInRound>0)) { ++x.rounds; x.issuedInRound=0; x.tr.push_back(TEv{E_ROUND,-1,(int)c.pendingTransitions().count(),0}); for (unsigned i=0;i<c.pendingTransitions().count();++i) x.tr.push_back(TEv{E_REQ,-2,(int)c.pendingTransitions()[i].type,(int)c.pendingTransitions()[i].destination}); }
    x.tr.push_back(TEv{k,N,0,0});
    if (!a.used) { a.used=true; if (a.cancel) { c.cancelPendingTransitions(); x.tr.push_back(TEv{E_CANCEL,N,0,0}); }
      if (a.type>=0) { hfsm2::StateID d=(hfsm2::StateID)a.dest; switch(a.type){case 0:c.changeTo(d);break;case 1:c.restart(d);break;case 2:c.resume(d);break;case 3:c.select(d);break;case 4:c.utilize(d);break;case 5:c.randomize(d);break;case 6:c.schedule(d);break;} ++x.issuedInRound; x.tr.push_back(TEv{E_REQ,N,a.type,a.dest}); } } }
  void entryGuard(GuardControl& c) { guard(c, E_NGUARD, c.context().ng[N]); }
  void exitGuard(GuardControl& c) { guard(c, E_XGUARD, c.context().xg[N]); }
  void enter(PlanControl& c) { c.context().tr.push_back(TEv{E_ENTER,N,0,0}); }
  void exit(PlanControl& c) { c.context().tr.push_back(TEv{E_EXIT,N,0,0}); }
  void reenter(PlanControl& c) { c.context().tr.push_back(TEv{E_REENTER,N,0,0}); }
};
using namespace mdl;
static Tree buildTree() {
  Tree t; t.n.resize(NS);
  auto mk=[&](int id, Kind k, Strat s, bool headless, std::vector<int> subs){ Node& n=t.n[id]; n.id=id;n.kind=k;n.strat=s;n.headless=headless;n.subs=subs; n.compo=-1; };
  for (int i=0;i<NS;++i) { mk(i,LEAF,S_COMPOSITE,false,{}); t.n[i].parent=-1; t.n[i].prong=0; }
  mk(0,COMPO,S_COMPOSITE,false,{1,8,20,23});
  mk(1,COMPO,S_COMPOSITE,false,{2,3,4}); mk(4,COMPO,S_RESUMABLE,false,{5,6,7});
  mk(8,ORTHO,S_COMPOSITE,false,{9,12,16,19}); mk(9,COMPO,S_SELECTABLE,false,{10,11}); mk(12,COMPO,S_UTILITARIAN,false,{13,14,15}); mk(16,COMPO,S_RANDOM,false,{17,18});
  mk(20,COMPO,S_COMPOSITE,true,{21,22});
  mk(23,COMPO,S_COMPOSITE,false,{24,29}); mk(24,COMPO,S_COMPOSITE,false,{25,26}); mk(26,COMPO,S_COMPOSITE,false,{27,28});
  int ci=0; for (int i=0;i<NS;++i){ if(t.n[i].kind==COMPO) t.n[i].compo=ci++; for(size_t k=0;k<t.n[i].subs.size();++k){t.n[t.n[i].subs[k]].parent=i;t.n[t.n[i].subs[k]].prong=(int)k;} }
  t.compoCount=ci; return t;
}
int main(int argc, char** argv) {
  unsigned seed = argc>1? atoi(argv[1]):1; int iters = argc>2? atoi(argv[2]):100000;
  Quirks q; q.earlyStop=true; q.reenterNoResumable=true; q.headlessZero=true;
  Tree t=buildTree(); Ctx ctx{}; g_ctx=&ctx; for (int i=0;i<NS;++i){ctx.util[i]=1.0f;}
  ScriptRNG rng; rng.ctx=&ctx; FSM::Instance fsm{ctx, rng};
  Env env; env.select=[&](int s){return (int)ctx.sel[s];}; env.utility=[&](int s){return ctx.util[s];}; env.rank=[&](int s){return t.n[s].headless?0:(int)ctx.rank[s];}; env.rnd=[&](){return ctx.rnd;};
  Model m(t, env); m.q=q; std::mt19937 g(seed);
  auto readCfg=[&](){ Cfg c; c.active.assign(t.compoCount,-1); c.resumable.assign(t.compoCount,-1); for (int i=0;i<NS;++i){ const Node& n=t.n[i]; if (n.parent>=0 && t.n[n.parent].kind==COMPO){ int ci=t.n[n.parent].compo; if (fsm.isActive((hfsm2::StateID)i)) c.active[ci]=n.prong; if (fsm.isResumable((hfsm2::StateID)i)) c.resumable[ci]=n.prong; } } return c; };
  auto show=[&](const Cfg& c){ std::string s; for(int i=0;i<t.compoCount;++i){ s+= std::to_string(c.active[i])+"/"+std::to_string(c.resumable[i])+" "; } return s; };
  auto randReq=[&](int& type,int& dest){ type=g()%7; dest=1+g()%(NS-1); if (type==3 && t.n[dest].kind!=LEAF) dest=9; };
  fsm.enter(); m.initial(); m.cfg=readCfg();
  int mism=0, shown=0; long roundsTotal=0, vetoed=0, multi=0, limitHit=0; std::map<std::string,int> cls;
  for (int it=0; it<iters; ++it) {
    for (int i=0;i<NS;++i){ ctx.util[i] = (float)(1+g()%4); ctx.rank[i]=(signed char)(g()%2); int w = t.n[i].kind==COMPO? (int)t.n[i].subs.size():1; ctx.sel[i]=(unsigned char)(g()%w); ctx.xg[i]=Act{}; ctx.ng[i]=Act{}; } ctx.rnd = (float)(g()%1000)/1000.f;
    int na = g()%4; for (int k=0;k<na;++k){ Act a; a.cancel = g()%2; if (g()%2 || !a.cancel) randReq(a.type,a.dest); (g()%2? ctx.xg: ctx.ng)[g()%NS]=a; }
    int ty,de; randReq(ty,de); hfsm2::StateID d=(hfsm2::StateID)de;
    switch(ty){case 0: fsm.changeTo(d);break;case 1:fsm.restart(d);break;case 2:fsm.resume(d);break;case 3:fsm.select(d);break;case 4:fsm.utilize(d);break;case 5:fsm.randomize(d);break;case 6:fsm.schedule(d);break;}
    ctx.tr.clear(); ctx.rounds=0; ctx.issuedInRound=0; int b0=ctx.breaks; Cfg before=m.cfg;
    fsm.update();
    // segment rounds from trace
    struct Round { std::vector<Req> pend; std::vector<Req> sched; bool cancelled=false; }; std::vector<Round> rs;
    bool lifecycleSeen=false, guardAfterLifecycle=false;
    for (auto& e: ctx.tr) { if (e.k==E_ROUND) rs.push_back(Round{}); else if (e.k==E_REQ && e.s==-2) rs.back().pend.push_back(Req{(TType)e.a,e.b}); else if (e.k==E_CANCEL) rs.back().cancelled=true; else if (e.k==E_ENTER||e.k==E_EXIT||e.k==E_REENTER) lifecycleSeen=true; else if ((e.k==E_XGUARD||e.k==E_NGUARD) && lifecycleSeen) guardAfterLifecycle=true; }
    roundsTotal+=rs.size(); if (rs.size()>1) ++multi; for (auto&r:rs) if (r.cancelled) ++vetoed; if (rs.size()>=4) ++limitHit;
    // model: if no guard round observed: the single external request (may be schedule or no-op)
    m.req.assign(t.compoCount,-1); m.remain.assign(t.compoCount,0); bool any=false;
    if (rs.empty()) { Req r{(TType)ty,de}; m.applyOne(r); }
    else for (auto& r: rs) { std::vector<int> backup=m.req; for (auto& p: r.pend) m.applyOne(p); if (r.cancelled) m.req=backup; else any=true; }
    if (any) m.commit(0); m.req.assign(t.compoCount,-1);
    Cfg lc=readCfg(); bool same=(lc.active==m.cfg.active), sameR=(lc.resumable==m.cfg.resumable);
    if (!same||!sameR||guardAfterLifecycle||ctx.breaks!=b0) { ++mism; std::string key=std::string(same?"":"ACTIVE ")+(sameR?"":"RESUM ")+(guardAfterLifecycle?"ORDER ":"")+(ctx.breaks!=b0?"BREAK ":"")+"rounds="+std::to_string(rs.size()); cls[key]++;
      if (shown++<6) { std::printf("[%d] %s ext=(%d->%d)\n", it, key.c_str(), ty, de); for (auto& r: rs){ std::printf("   round%s:", r.cancelled?" (cancelled)":""); for(auto&p:r.pend) std::printf(" (%d->%d)",(int)p.type,p.dest); std::printf("\n"); } std::printf("  before %s\n  lib    %s\n  model  %s\n", show(before).c_str(), show(lc).c_str(), show(m.cfg).c_str()); }
      m.cfg=lc; }
  }
  std::printf("iters %d mismatches %d rounds %ld multi-round steps %ld vetoed rounds %ld steps with >=4 rounds %ld\n", iters, mism, roundsTotal, multi, vetoed, limitHit); for (auto&kv:cls) std::printf("  %s: %d\n", kv.first.c_str(), kv.second);
}
