import sys, os, subprocess, glob
from concurrent.futures import ThreadPoolExecutor
root=sys.argv[1]; out=sys.argv[2]; extra=sys.argv[3:] 
os.makedirs(out, exist_ok=True)
srcs=glob.glob(root+'/test/*.cpp')+glob.glob(root+'/test/*/*.cpp')
def cc(f):
    o=os.path.join(out, f.replace('/','_')+'.o')
    r=subprocess.run(['clang++','-std=c++11','-O0','-w','-I'+root+'/include','-I'+root+'/external','-c',f,'-o',o]+extra,capture_output=True,text=True)
    return f, r.returncode, r.stderr[-2000:]
with ThreadPoolExecutor(16) as ex:
    res=list(ex.map(cc,srcs))
bad=[r for r in res if r[1]]
for b in bad: print('FAIL',b[0],b[2])
if not bad:
    r=subprocess.run(['clang++']+glob.glob(out+'/*.o')+['-o',out+'/t'],capture_output=True,text=True); print(r.stderr[-500:])
    r=subprocess.run([out+'/t'],capture_output=True,text=True); print(r.stdout[-600:])
