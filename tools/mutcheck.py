#!/usr/bin/env python3
"""Sensitivity testing: apply a change to a scratch worktree of /repo and run checks against it.

    mutcheck.py <name> <patch-file | -R:<commit> | sed:<file>:<expr>> <PROP> [<PROP> ...]

Creates /tmp/mut/<name> (git worktree of /repo HEAD), applies the change, runs  check.py <PROP> --tier quick  for each
property with VERIF_REPO / VERIF_OUT redirected, prints one line per property (CAUGHT / missed), removes the worktree."""
import os, subprocess, sys, shutil
VERIF = os.path.dirname(os.path.dirname(os.path.abspath(__file__)))
name, change, props = sys.argv[1], sys.argv[2], sys.argv[3:]
wt = '/tmp/mut/%s' % name
out = '/tmp/mut/%s.out' % name
os.makedirs('/tmp/mut', exist_ok=True)
subprocess.run(['git', '-C', '/repo', 'worktree', 'remove', '--force', wt], stdout=subprocess.DEVNULL, stderr=subprocess.DEVNULL)
subprocess.check_call(['git', '-C', '/repo', 'worktree', 'add', '--detach', '-f', wt, 'HEAD'], stdout=subprocess.DEVNULL, stderr=subprocess.DEVNULL)
try:
    if change.startswith('-R:'):
        diff = subprocess.check_output(['git', '-C', '/repo', 'show', change[3:]])
        subprocess.run(['git', '-C', wt, 'apply', '-R'], input=diff, check=True)
    elif change.startswith('json:'):
        import json
        for ed in json.load(open(change[5:])):
            hit = 0
            for f in ed['files']:
                p = os.path.join(wt, f)
                t = open(p, encoding='utf-8').read()
                if ed['old'] in t:
                    t = t.replace(ed['old'], ed['new'], ed.get('count', 1)); hit += 1
                    open(p, 'w', encoding='utf-8').write(t)
            if not hit:
                print('%s: pattern not found: %r' % (name, ed['old'][:60])); sys.exit(2)
    elif change.startswith('sed:'):
        _, files, expr = change.split(':', 2)
        for f in files.split(','):
            subprocess.check_call(['sed', '-i', expr, os.path.join(wt, f)])
    else:
        subprocess.check_call(['git', '-C', wt, 'apply', os.path.abspath(change)])
    d = subprocess.check_output(['git', '-C', wt, 'diff', '--stat']).decode()
    if not d.strip():
        print('%s: CHANGE DID NOT APPLY' % name); sys.exit(2)
    env = dict(os.environ, VERIF_REPO=wt, VERIF_OUT=out)
    for p in props:
        r = subprocess.run([sys.executable, os.path.join(VERIF, 'tools/check.py'), p, '--tier', os.environ.get('MUT_TIER', 'quick')], stdout=subprocess.PIPE, stderr=subprocess.STDOUT, text=True, env=env)
        viol = [l for l in r.stdout.splitlines() if l.startswith('VIOLATION')]
        msg = [l for l in r.stdout.splitlines() if l.startswith('REPLAY-FAIL') or l.startswith('  C') or 'ERROR: AddressSanitizer' in l or 'runtime error' in l]
        print('%-28s %s %s rc=%d %s' % (name, p, 'CAUGHT' if viol else 'missed', r.returncode, (msg[0][:160] if msg else '')), flush=True)
finally:
    subprocess.run(['git', '-C', '/repo', 'worktree', 'remove', '--force', wt], stdout=subprocess.DEVNULL, stderr=subprocess.DEVNULL)
    shutil.rmtree(out, ignore_errors=True)
