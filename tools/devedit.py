#!/usr/bin/env python3
"""devedit.py <repo> <relpath-under-development/hfsm2> <expected-count>  (old text on fd 3? no: reads a python literal pair from stdin)
stdin: python expression evaluating to a list of (old, new) pairs. Applies each exactly <expected-count> times, then re-joins the single header."""
import sys, os, ast
sys.path.insert(0, os.path.dirname(__file__))
import join
repo, rel, cnt = sys.argv[1], sys.argv[2], int(sys.argv[3])
pairs = ast.literal_eval(sys.stdin.read())
p = os.path.join(repo, 'development/hfsm2', rel)
s = open(p, encoding='utf-8').read()
for old, new in pairs:
    assert s.count(old) == cnt, (rel, s.count(old), old[:60])
    s = s.replace(old, new)
open(p, 'w', encoding='utf-8').write(s)
open(os.path.join(repo, 'include/hfsm2/machine.hpp'), 'wb').write(join.joined(repo))
