#!/usr/bin/env python3
"""Runs every recorded breaking change against the checks that are meant to notice it and writes notes/sensitivity.md.

    sensitivity.py [--only <substring>]

Changes: (a) reversions of the fix commits, (b) hand-written mutants notes/mutants/*.json, (c) the independently written seeded changes
seeded/<id>/patch.diff. Each is applied to a scratch worktree of /repo HEAD under /tmp/mut (tools/mutcheck.py), the named quick checks are
run with VERIF_REPO/VERIF_OUT redirected, the worktree is removed. Takes hours; not part of any registered command."""
import glob, json, os, re, subprocess, sys, time
VERIF = os.path.dirname(os.path.dirname(os.path.abspath(__file__)))
M = 'json:' + os.path.join(VERIF, 'notes/mutants/')

REVERTS = [  # (name, commit, intended checks, what the fix repaired)
    ('revF2', '23fac85', ['C11'], 'bounded request queue'),
    ('revF18', '76e1bf3', ['C18'], 'BitArrayT::set padding'),
    ('revF20', 'e7efe90', ['C18'], 'Bits::operator bool width % 8 == 0'),
    ('revF3', '47af75d', ['C10'], 'RNG base constructed before the machine'),
    ('revF5', '970b1e1', ['C12'], 'random fallback'),
    ('revF7', '3ea5416', ['C02', 'C01'], 'select descends'),
    ('revF24', 'e396998', ['C02'], 'Selectable candidate uses select()'),
    ('revF8', 'a04eb1e', ['C02'], 'deepReenter records resumable'),
    ('revF9', '6a59486', ['C02'], 'later request of a batch wins'),
    ('revF10b', '11cd59f', ['C12', 'C02'], 'headless heads: utility 1'),
    ('revF11', 'af91a4a', ['C05'], 'consumed event stops orthogonal siblings'),
    ('revF1', '8a13248', ['C08'], 'load() keeps loaded resumable marks'),
    ('revF1b', '3565dbb', ['C08'], 'loadEnter() keeps loaded resumable marks'),
    # (a343ac4, reset refreshes the structure report, no longer reverts cleanly: covered by mutant m19)
    ('revF6', '7933029', ['C13'], 'pending queries'),
    ('revF22', 'fa7bde8', ['C20'], '32-bit uint64 order'),
    ('revF25', '164c352', ['C04', 'C02'], 'backup covers remain marks'),
    ('revF26', '137bdf2', ['C02'], 'reset clears requests'),
    ('revF28', '780d490', ['C04', 'C02'], 'S_::deepForwardExitGuard'),
    ('revF27', '89ae220', ['C04'], 'orthogonal regions forward guards to all prongs'),
    ('revF33', 'f21e6c7', ['C11'], 'activation assert (nested regions)'),
    ('revF36', '705492e', ['C11', 'C10'], 'transition targets initialised by the constructor'),
]
MUTANTS = [
    ('m01', 'm01_resume_first.json', ['C02']), ('m02', 'm02_utilize_tie_right.json', ['C12', 'C02']), ('m03', 'm03_exit_no_resumable.json', ['C02']),
    ('m04', 'm04_no_restore_on_veto.json', ['C04', 'C02']), ('m05', 'm05_subst_limit_plus1.json', ['C04']), ('m08', 'm08_exit_keeps_marks.json', ['C06']),
    ('m09', 'm09_stream_mask.json', ['C18']), ('m13', 'm13_serial_bits.json', ['C17', 'C08']), ('m15', 'm15_log_swap.json', ['C16']),
    ('m17', 'm17_activity_flip.json', ['C16']), ('m18', 'm18_pending_exit_or.json', ['C13']), ('m19', 'm19_reset_no_report.json', ['C16']),
    ('m21', 'm21_stale_history.json', ['C09']), ('m22', 'm22_dev_only_revF9.json', ['C15', 'C02']), ('m23', 'm23_payload_flag.json', ['C14', 'C07', 'C06']),
    ('m24', 'm24_postreact_order.json', ['C05']), ('m25', 'm25_alloc_in_update.json', ['C11']), ('m26', 'm26_pool_remove_tail.json', ['C19', 'C07']),
    ('m27', 'm27_save_width_plus1.json', ['C08']),
]
# seeded changes: the property they were written for first, then other checks that may notice
SEED_EXTRA = {'C11-tasklist-clear-keeps-last': ['C19'], 'C15-payload-plan-cyclic-task': ['C06'], 'C08-ortho-active-bits-max': ['C17'], 'C17-ortho-active-bits-max': ['C08'],
              'C11-bits-clear-extra-byte': ['C18', 'C02', 'C03'], 'C13-reenter-resumable-after-active': ['C02'], 'C14-activation-drops-current-transitions': ['C09'], 'C01-report-resumable-wrong-descent': ['C02'],
              'C19-array-emplace-copy-capacity-minus-1': ['C09'], 'C10-copy-drops-requests': ['C11'], 'C12-ortho-report-utilize-as-change': ['C02']}


def main():
    only = sys.argv[2] if len(sys.argv) > 2 and sys.argv[1] == '--only' else None
    jobs = []
    for n, c, props, what in REVERTS:
        jobs.append(('fix reverted', n, '-R:' + c, props, '%s (%s)' % (what, c)))
    for n, f, props in MUTANTS:
        jobs.append(('mutant', n, M + f, props, f[4:-5].replace('_', ' ')))
    for d in sorted(glob.glob(os.path.join(VERIF, 'seeded', '*'))):
        sid = os.path.basename(d)
        if os.path.exists(os.path.join(d, 'patch.diff')):
            jobs.append(('seeded', 'seed_' + sid, os.path.join(d, 'patch.diff'), [sid[:3]] + SEED_EXTRA.get(sid, []), sid))
    rows = []
    t0 = time.time()
    for kind, name, change, props, what in jobs:
        if only and only not in name:
            continue
        r = subprocess.run([sys.executable, os.path.join(VERIF, 'tools/mutcheck.py'), name, change] + props, stdout=subprocess.PIPE, stderr=subprocess.STDOUT, text=True)
        res = {}
        for l in r.stdout.splitlines():
            m = re.match(r'^(\S+)\s+(C\d\d) (CAUGHT|missed) rc=(\d+) ?(.*)$', l)
            if m:
                res[m.group(2)] = (m.group(3) if m.group(4) != '2' else 'undecided', m.group(5).replace('REPLAY-FAIL ', '')[:140])
        if not res:
            res = {p: ('undecided', r.stdout.strip()[-140:]) for p in props}
        rows.append((kind, name, what, props, res))
        print('%6.0fs %s %s' % (time.time() - t0, name, {p: res.get(p, ('?',))[0] for p in props}), flush=True)
    head = subprocess.check_output(['git', '-C', '/repo', 'rev-parse', '--short', 'HEAD']).decode().strip()
    vh = subprocess.check_output(['git', '-C', VERIF, 'rev-parse', '--short', 'HEAD']).decode().strip()
    out = ['# Sensitivity: which check notices which change', '',
           'Generated by `tools/sensitivity.py` (quick tier, VERIF_SEED=%s) against /repo %s with /verif %s. "first" = the check the change was aimed at.' % (os.environ.get('VERIF_SEED', '1'), head, vh), '',
           '| kind | change | first check | other checks | first message |', '|---|---|---|---|---|']
    caught_first = caught_any = 0
    for kind, name, what, props, res in rows:
        f = res.get(props[0], ('?', ''))
        others = ', '.join('%s %s' % (p, res.get(p, ('?',))[0]) for p in props[1:])
        msg = next((res[p][1] for p in props if res.get(p, ('',))[0] == 'CAUGHT'), '')
        out.append('| %s | %s | %s %s | %s | %s |' % (kind, what, props[0], f[0], others, msg.replace('|', '/')))
        caught_first += f[0] == 'CAUGHT'
        caught_any += any(res.get(p, ('',))[0] == 'CAUGHT' for p in props)
    out += ['', '%d changes; %d noticed by the check they were aimed at, %d by at least one of the listed checks.' % (len(rows), caught_first, caught_any), '']
    if not only:
        open(os.path.join(VERIF, 'notes', 'sensitivity.md'), 'w').write('\n'.join(out))
    print('\n'.join(out[-3:]))


main()
