#!/usr/bin/env python3
"""Machine structures: grammar, independent numbering, header generation, random generation.

Grammar (one string per structure):   .  leaf
    C[..] R[..] S[..] U[..] N[..]   headed composite / resumable / selectable / utilitarian / random region
    c[..] r[..] s[..] u[..] n[..]   the same, headless (*Peers)
    O[..] o[..]                     orthogonal region, headed / headless
The root must be a region.  Numbering below is an independent DFS (it shares nothing with the type-list arithmetic of
the library): every node, including the anonymous head of a headless region, takes the next state id; every region takes the
next region id; composite-style regions and orthogonal regions are numbered separately as well."""
import random, sys

STRATS = {'C': 0, 'R': 1, 'S': 2, 'U': 3, 'N': 4}
STRAT_NAMES = ['Composite', 'Resumable', 'Selectable', 'Utilitarian', 'Random']


class Node:
    __slots__ = ('kind', 'strat', 'headless', 'subs', 'id', 'parent', 'prong', 'compo', 'ortho', 'region', 'size', 'depth')

    def __init__(self, kind, strat=0, headless=False, subs=None):
        self.kind, self.strat, self.headless, self.subs = kind, strat, headless, subs or []
        self.id = self.parent = self.prong = self.compo = self.ortho = self.region = -1
        self.size = 1
        self.depth = 0


def parse(s):
    pos = [0]

    def node():
        ch = s[pos[0]]
        pos[0] += 1
        if ch == '.':
            return Node('L')
        assert ch.upper() in 'CRSUNO', 'bad char %r in %r' % (ch, s)
        assert s[pos[0]] == '['
        pos[0] += 1
        subs = []
        while s[pos[0]] != ']':
            subs.append(node())
        pos[0] += 1
        assert subs, 'empty region in %r' % s
        if ch.upper() == 'O':
            return Node('O', 0, ch.islower(), subs)
        return Node('C', STRATS[ch.upper()], ch.islower(), subs)

    root = node()
    assert pos[0] == len(s), 'trailing garbage in %r' % s
    assert root.kind != 'L'
    return root


def number(root):
    """independent DFS numbering; returns the list of nodes in state-id order"""
    nodes = []
    counters = dict(region=0, compo=0, ortho=0)

    def visit(n, parent, prong, depth):
        n.id = len(nodes)
        n.parent, n.prong, n.depth = parent, prong, depth
        nodes.append(n)
        if n.kind != 'L':
            n.region = counters['region']; counters['region'] += 1
            if n.kind == 'C':
                n.compo = counters['compo']; counters['compo'] += 1
            else:
                n.ortho = counters['ortho']; counters['ortho'] += 1
            for i, c in enumerate(n.subs):
                # a region's head and the region are one node here: the head has the region's state id
                visit(c, n.id, i, depth + 1)
        n.size = len(nodes) - n.id
    visit(root, -1, 0, 0)
    return nodes


def bit_contain(v):
    b = 0
    while (1 << b) < v:
        b += 1
    return b


def counts(root, nodes):
    compo = [n for n in nodes if n.kind == 'C']
    ortho = [n for n in nodes if n.kind == 'O']

    def active_bits(n):
        if n.kind == 'L':
            return 0
        if n.kind == 'C':   # exactly one sub-state is active: the widest alternative decides
            return bit_contain(len(n.subs)) + max(active_bits(c) for c in n.subs)
        return sum(active_bits(c) for c in n.subs)   # all sub-states of an orthogonal region are active

    def resumable_bits(n):  # every composite region stores a flag and an index, whether active or not
        if n.kind == 'L':
            return 0
        own = (bit_contain(len(n.subs)) + 1) if n.kind == 'C' else 0
        return own + sum(resumable_bits(c) for c in n.subs)

    prongs = sum(len(n.subs) for n in compo)
    return dict(STATE_COUNT=len(nodes), REGION_COUNT=len(compo) + len(ortho), COMPO_COUNT=len(compo), ORTHO_COUNT=len(ortho),
                COMPO_PRONGS=prongs, ORTHO_UNITS=sum((len(n.subs) + 7) // 8 for n in ortho),
                SERIAL_BITS=1 + active_bits(root) + resumable_bits(root), TASK_CAPACITY=2 * prongs)


def cpp_type(n, root=True, state='St'):
    """C++ spelling over the generic state templates; M is the machine alias"""
    if n.kind == 'L':
        return '%s<%d>' % (state, n.id)
    subs = ', '.join(cpp_type(c, False, state) for c in n.subs)
    base = 'Orthogonal' if n.kind == 'O' else STRAT_NAMES[n.strat]
    if root:
        name = {'Composite': 'Root', 'Orthogonal': 'OrthogonalRoot'}.get(base, base + 'Root')
        if n.headless:
            name = {'Root': 'PeerRoot'}.get(name, name.replace('Root', 'PeerRoot'))
            return 'typename M::template %s<%s>' % (name, subs)
        return 'typename M::template %s<%s<%d>, %s>' % (name, state, n.id, subs)
    if n.headless:
        return 'typename M::template %sPeers<%s>' % (base, subs)
    return 'typename M::template %s<%s<%d>, %s>' % (base, state, n.id, subs)


def cpp_type_plain(n, root=True, state='St', m='M'):
    return cpp_type(n, root, state).replace('typename M::template ', m + '::')


def header(name, spec):
    root = parse(spec)
    nodes = number(root)
    c = counts(root, nodes)
    out = []
    out.append('// generated by tools/structgen.py from "%s" -- do not edit' % spec)
    out.append('#pragma once')
    out.append('#define HV_MACHINE_NAME "%s"' % name)
    out.append('#define HV_MACHINE_SPEC "%s"' % spec)
    out.append('static constexpr int HV_NS = %d;' % len(nodes))
    for k, v in c.items():
        out.append('static constexpr int HV_%s = %d;' % (k, v))
    out.append('static constexpr int HV_MAX_WIDTH = %d;' % max(len(n.subs) for n in nodes if n.kind != 'L'))
    out.append('// kind(0 leaf,1 composite,2 orthogonal), strategy, headless, parent, prong, nsubs, firstSub, compo, ortho, region, size, depth')
    subs = []
    rows = []
    for n in nodes:
        first = len(subs)
        subs.extend(c_.id for c_ in n.subs)
        rows.append('\t{%d, %d, %d, %d, %d, %d, %d, %d, %d, %d, %d, %d}' % ({'L': 0, 'C': 1, 'O': 2}[n.kind], n.strat, int(n.headless), n.parent, n.prong,
                                                                       len(n.subs), first, n.compo, n.ortho, n.region, n.size, n.depth))
    out.append('static constexpr hvm::Node HV_NODES[HV_NS] = {\n%s\n};' % ',\n'.join(rows))
    out.append('static constexpr short HV_SUBS[] = {%s};' % ', '.join(map(str, subs or [0])))
    out.append('template <int N> struct St;')
    out.append('template <typename M> struct HvFsm { using type = %s; };' % cpp_type(root))
    heads = [n.id for n in nodes if not (n.kind != 'L' and n.headless)]
    out.append('// state ids that have a user state object (everything except anonymous heads)')
    out.append('#define HV_FOR_EACH_STATE(X) %s' % ' '.join('X(%d)' % i for i in heads))
    return '\n'.join(out) + '\n'


# ------------------------------------------------------------------------------------------------
# random structures

def random_spec(rng, max_states=36, max_depth=4, max_width=6, allow_width1=False, utility=True):
    budget = [max_states]
    letters = 'CRSUN' if utility else 'CRS'

    def region(depth, force_compo=False):
        ortho = (not force_compo) and rng.random() < 0.25
        w_lo = 1 if allow_width1 else 2
        width = rng.choice([w_lo, 2, 2, 3, 3, 4, max_width, rng.randint(w_lo, max_width)])
        if ortho and rng.random() < 0.15:
            width = rng.choice([8, 9])
        width = max(w_lo, min(width, budget[0] - 1))
        if width < w_lo:
            return '.'
        budget[0] -= 1 + width
        subs = []
        for _ in range(width):
            if depth < max_depth and budget[0] >= 3 and rng.random() < (0.45 if depth < 2 else 0.25):
                subs.append(region(depth + 1))
            else:
                subs.append('.')
        ch = 'O' if ortho else rng.choice(letters)
        if rng.random() < 0.25:
            ch = ch.lower()
        return '%s[%s]' % (ch, ''.join(subs))

    for _ in range(100):
        budget[0] = max_states
        s = region(0)
        root = parse(s)
        nodes = number(root)
        if any(n.kind == 'C' for n in nodes) and len(nodes) >= 5:
            return s
    return 'C[..]'


if __name__ == '__main__':
    if sys.argv[1] == 'header':
        sys.stdout.write(header(sys.argv[2], sys.argv[3]))
    elif sys.argv[1] == 'random':
        r = random.Random(int(sys.argv[2]))
        for _ in range(int(sys.argv[3])):
            print(random_spec(r))
