#!/usr/bin/env python3
"""C17 — identifiers and structural metadata follow the declaration, for generated structures.

Generated input = a machine structure (a C++ program fragment); oracle = the independent DFS numbering of structgen.py,
stated as static_asserts; evaluation = compiling the fragment (-fsyntax-only). Every structure is spelled twice (over the
template St<N, K> and over separately named plain structs) and both spellings must satisfy the same numbers."""
import os, random, re, subprocess, sys, time
from concurrent.futures import ThreadPoolExecutor
sys.path.insert(0, os.path.dirname(os.path.abspath(__file__)))
import structgen

PER_TU = 40
BUDGETS = [8, 20, 20, 40, 40, 80, 80, 120, 120, 200, 300]   # states per structure; the two largest make STATE_COUNT / COMPO_PRONGS / TASK_CAPACITY exceed 255


def random_spec(rng):
    """wider / deeper / larger than the executable zoo: up to ~300 states (counts beyond 8-bit range), width <= 12, depth <= 6, width-1 regions allowed"""
    budget = [0]

    def region(depth):
        ortho = rng.random() < 0.3
        width = rng.choice([1, 2, 2, 3, 3, 4, 5, 7, 8, 9, 12])
        width = max(1, min(width, budget[0] - 1))
        budget[0] -= 1 + width
        subs = []
        for _ in range(width):
            if depth < 6 and budget[0] >= 2 and rng.random() < (0.5 if depth < 3 else 0.3):
                subs.append(region(depth + 1))
            else:
                subs.append('.')
        ch = 'O' if ortho else rng.choice('CRSUN')
        if rng.random() < 0.3:
            ch = ch.lower()
        return '%s[%s]' % (ch, ''.join(subs))

    for _ in range(200):
        budget[0] = rng.choice(BUDGETS)
        s = region(0)
        nodes = structgen.number(structgen.parse(s))
        if any(n.kind == 'C' for n in nodes) and len(nodes) <= 320:
            return s
    return 'C[..]'


def nontrivial(spec):
    """a region of width >= 3 nested inside a non-first prong (exercises the index offsets of right halves)"""
    nodes = structgen.number(structgen.parse(spec))
    for n in nodes:
        if n.kind != 'L' and len(n.subs) >= 3 and n.parent >= 0:
            c = n
            while c.parent >= 0:
                if c.prong > 0:
                    return True
                c = nodes[c.parent]
    return False


def fragment(idx, spec):
    root = structgen.parse(spec)
    nodes = structgen.number(root)
    c = structgen.counts(root, nodes)
    ns = 's%d' % idx
    out = ['namespace %s { // %s' % (ns, spec)]
    out.append('template <int N> struct St;')
    out.append('using FSM = %s;' % structgen.cpp_type_plain(root, True, 'St', 'M'))
    named = [n for n in nodes if not (n.kind != 'L' and n.headless)]
    out.append(' '.join('struct A%d;' % n.id for n in named))
    out.append('using FSM2 = %s;' % re.sub(r'St<(\d+)>', r'A\1', structgen.cpp_type_plain(root, True, 'St', 'M')))
    tag = '%s|%s' % (ns, spec)
    for n in named:
        out.append('static_assert(FSM::stateId<St<%d>>() == %d && FSM2::stateId<A%d>() == %d, "%s stateId %d");' % (n.id, n.id, n.id, n.id, tag, n.id))
        if n.kind != 'L':
            out.append('static_assert(FSM::regionId<St<%d>>() == %d && FSM2::regionId<A%d>() == %d, "%s regionId of state %d");' % (n.id, n.region, n.id, n.region, tag, n.id))
    for fsm in ('FSM', 'FSM2'):
        out.append('static_assert(%s::STATE_COUNT == %d, "%s STATE_COUNT");' % (fsm, c['STATE_COUNT'], tag))
        out.append('static_assert(%s::REGION_COUNT == %d, "%s REGION_COUNT");' % (fsm, c['REGION_COUNT'], tag))
        out.append('static_assert(%s::COMPO_COUNT == %d, "%s COMPO_COUNT");' % (fsm, c['COMPO_COUNT'], tag))
        out.append('static_assert(%s::ORTHO_COUNT == %d, "%s ORTHO_COUNT");' % (fsm, c['ORTHO_COUNT'], tag))
        out.append('static_assert(%s::ORTHO_UNITS == %d, "%s ORTHO_UNITS");' % (fsm, c['ORTHO_UNITS'], tag))
        out.append('static_assert(%s::Apex::COMPO_PRONGS == %d, "%s COMPO_PRONGS");' % (fsm, c['COMPO_PRONGS'], tag))
        out.append('static_assert(%s::SERIAL_BITS == %d && hfsm2::detail::StreamBufferT<%s::SERIAL_BITS>::BIT_CAPACITY == %d, "%s SERIAL_BITS");' % (fsm, c['SERIAL_BITS'], fsm, c['SERIAL_BITS'], tag))
        out.append('static_assert(%s::TASK_CAPACITY == %d, "%s TASK_CAPACITY");' % (fsm, c['TASK_CAPACITY'], tag))
    out.append('}')
    return '\n'.join(out)


def tu(specs, first_idx, dev):
    head = ['#define HFSM2_ENABLE_ALL', '#include <hfsm2/%s>' % ('machine_dev.hpp' if dev else 'machine.hpp'), 'using M = hfsm2::Machine;']
    return '\n'.join(head + [fragment(first_idx + i, s) for i, s in enumerate(specs)]) + '\n'


def compile_tu(path, repo, dev):
    inc = os.path.join(repo, 'development' if dev else 'include')
    r = subprocess.run(['clang++', '-std=c++14', '-fsyntax-only', '-ferror-limit=0', '-I' + inc, path], stdout=subprocess.PIPE, stderr=subprocess.STDOUT, text=True)
    return r.returncode, r.stdout


def run(tier, seed, repo, build, out, flavours, zoo):
    t0 = time.time()
    n = 320 if tier == "quick" else 1500
    rng = random.Random(seed * 7919 + 13)
    specs = list(zoo.values())
    seen = set(specs)
    while len(specs) < n:
        s = random_spec(rng)
        if s not in seen:
            seen.add(s); specs.append(s)
    gendir = os.path.join(build, 'c17-%d' % os.getpid())
    os.makedirs(gendir, exist_ok=True)
    jobs = []
    for dev in ([False, True] if 'dev' in flavours else [False]):
        for k in range(0, len(specs), PER_TU):
            p = os.path.join(gendir, 'tu_%s_%d.cpp' % ('dev' if dev else 'single', k))
            open(p, 'w').write(tu(specs[k:k + PER_TU], k, dev))
            jobs.append((p, dev, k))
    violations = []
    undecided = []
    with ThreadPoolExecutor(max_workers=max(2, min(12, (os.cpu_count() or 4) - 2))) as ex:   # the large structures need > 1 GB per compiler process
        results = list(ex.map(lambda j: compile_tu(j[0], repo, j[1]), jobs))
    for (p, dev, k), (rc, outp) in zip(jobs, results):
        if rc != 0 and 'static_assert failed' not in outp:
            # no verdict from this translation unit (compiler killed or out of memory under load): once more, alone
            rc, outp = compile_tu(p, repo, dev)
        if rc == 0:
            continue
        fails = re.findall(r'static_assert failed[^"]*"(s\d+)\|([^ "]+) ([^"]*)"', outp)
        if not fails:
            undecided.append((p, outp[-2000:]))
            continue
        done = set()
        for ns, spec, what in fails:
            if (ns, dev) in done:
                continue
            done.add((ns, dev))
            os.makedirs(os.path.join(out, 'replays'), exist_ok=True)
            rp = os.path.join(out, 'replays', 'C17-%s-%s.case' % (ns, 'dev' if dev else 'single'))
            open(rp, 'w').write(spec + '\n')
            violations.append(dict(replay=rp, message='structure %s: %s does not follow the declaration (%s headers)' % (spec, what, 'development' if dev else 'single')))
    for p, _, _ in jobs:
        try:
            os.unlink(p)
        except OSError:
            pass
    try:
        os.rmdir(gendir)
    except OSError:
        pass
    # run-time half: callbacks see the declared stateId(), and control.plan() inside a state is plan(<published id of its region>)
    rt = runtime(tier, seed, out, violations, undecided)
    nt = [s for s in specs if nontrivial(s)]
    sizes = [len(structgen.number(structgen.parse(s))) for s in specs]
    asserts = sum(2 * len(structgen.number(structgen.parse(s))) for s in specs)
    cov = dict(evaluations=len(specs) * (2 if 'dev' in flavours else 1), distinct_nontrivial=len(set(nt)),
               rule='case = one generated machine structure (grammar in tools/structgen.py; up to 320 states, width <= 12, depth <= 7, headless regions, width-1 regions, all root kinds) spelled twice; '
                    'oracle = static_asserts on stateId/regionId of every named state and on STATE/REGION/COMPO/ORTHO counts, ORTHO_UNITS, COMPO_PRONGS, SERIAL_BITS, TASK_CAPACITY computed by an independent DFS; '
                    'non-trivial = has a region of width >= 3 nested inside a non-first prong; distinct = distinct structure strings',
               samples=specs[12:18], classes=dict(structures=len(specs), max_states=max(sizes), mean_states=sum(sizes) // len(sizes), approx_static_asserts=asserts,
                                                  with_headless=sum(1 for s in specs if any(ch.islower() for ch in s)), with_width1=sum(1 for s in specs if '[.]' in s)),
               translation_units=len(jobs), flavours=flavours)
    cov['classes'].update(rt)
    cov['rule'] += ' Run-time half: generated histories on three zoo machines (walkers, --prop C17) compare control.stateId() in every callback with the declared id and control.plan() inside update() with plan(<published region id>).'
    return cov, violations, undecided, time.time() - t0


RUNTIME_WALKERS = ['walk_z15_units_m', 'walk_z01_kitchen_m', 'walk_z08_wide_m']


def runtime(tier, seed, out, violations, undecided):
    import shutil
    import check, props
    specs = [w for w in props.WALKERS if w['name'] in RUNTIME_WALKERS]
    bins = check.build_all(specs, ['single'])
    cases = 3000 if tier == 'quick' else 20000
    with ThreadPoolExecutor(max_workers=len(specs)) as ex:
        futs = [ex.submit(check.run_job, dict(bin=w['name'], cases=cases, size=40, flavour='single'), bins[(w['name'], 'single')], 'C17', tier, seed, i, [], 3000) for i, w in enumerate(specs)]
        results = [f.result() for f in futs]
    total = 0
    for r in results:
        name = r['job']['bin']
        total += (r['stats'] or {}).get('evaluations', 0)
        if r['rc'] == 0:
            continue
        case = r['replay'] or r['pending']
        if case is None:
            undecided.append((name, str(r['rc']) + ' ' + (r['out'] or '')[-500:]))
            continue
        os.makedirs(os.path.join(out, 'replays'), exist_ok=True)
        dst = os.path.join(out, 'replays', 'C17-%s-single.case' % name)
        shutil.copyfile(case, dst)
        fails, last = 0, ''
        for _ in range(3):
            rc, o = check.replay(r['binpath'], 'C17', dst, [], [])
            last = o
            fails += rc != 0
        if fails == 3:
            m = re.search(r'REPLAY-FAIL (.*)', last)
            violations.append(dict(replay=dst, message=m.group(1) if m else 'run-time identifier check fails on replay'))
        else:
            undecided.append((name, 'failure does not reproduce on replay'))
    return dict(runtime_walkers=len(specs), runtime_cases=total)


def replay(path, repo, flavours):
    raw = open(path, 'rb').read()
    m = re.match(r'C17-(walk_\w+?)-single', os.path.basename(path))
    if m and not raw.strip().isascii() or (m and not re.match(rb'^[A-Za-z\[\]\.]+$', raw.strip())):
        import check, props
        specs = [w for w in props.WALKERS if w['name'] == m.group(1)]
        bins = check.build_all(specs, ['single'])
        rc, o = check.replay(bins[(m.group(1), 'single')], 'C17', path, [], [])
        print(o[-2000:])
        return rc == 0
    spec = open(path).read().strip()
    ok = True
    for dev in ([False, True] if 'dev' in flavours else [False]):
        p = path + '.cpp'
        open(p, 'w').write(tu([spec], 0, dev))
        rc, outp = compile_tu(p, repo, dev)
        os.unlink(p)
        print(spec)
        if rc != 0:
            print('REPLAY-FAIL C17 ' + '; '.join(sorted(set(m[2] for m in re.findall(r'static_assert failed[^"]*"(s\d+)\|([^ "]+) ([^"]*)"', outp)))) or outp[-1500:])
            ok = False
        else:
            print('REPLAY-PASS')
    return ok
