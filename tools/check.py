#!/usr/bin/env python3
"""Entry point of every registered check.

    check.py <PROP> [--tier quick|thorough] [--replay FILE]
    check.py --setup            build every binary the quick tier needs (cache warm-up)

Exit codes: 0 property held on everything explored (KNOWN-FINDING lines possible),
            1 violation (a line  VIOLATION property=<id> replay=<path>  is printed),
            2 could not decide (build failure, missing tool)."""
import atexit, hashlib, json, os, re, shutil, subprocess, sys, time, fcntl
from concurrent.futures import ThreadPoolExecutor

VERIF = os.path.dirname(os.path.dirname(os.path.abspath(__file__)))
REPO = os.environ.get('VERIF_REPO', '/repo')
BUILD = os.path.join(VERIF, 'build')
OUT = os.environ.get('VERIF_OUT', VERIF)   # evidence/ and replays/ go here (mutation runs redirect it)
sys.path.insert(0, os.path.join(VERIF, 'tools'))
import join as joinmod
import props

CXX = 'clang++'
BASE_FLAGS = ['-std=c++14', '-O1', '-g', '-fno-omit-frame-pointer', '-DHFSM2_VERIF', '-Wno-unused-value', '-Wno-ignored-reference-qualifiers']
SAN_FLAGS = ['-fsanitize=address,undefined', '-fno-sanitize-recover=undefined']
NCPU = os.cpu_count() or 4


def log(*a):
    print(*a, file=sys.stderr, flush=True)


# ------------------------------------------------------------------------------------------------
# tree hash / flavours

_tree_hash = None
import threading
_gen_lock = threading.Lock()


def tree_hash():
    global _tree_hash
    if _tree_hash is None:
        h = hashlib.sha256()
        for root in ('include', 'development'):
            for d, _, files in sorted(os.walk(os.path.join(REPO, root))):
                for f in sorted(files):
                    p = os.path.join(d, f)
                    h.update(p.encode()); h.update(open(p, 'rb').read())
        for root in ('harness', 'machines'):
            base = os.path.join(VERIF, root)
            for d, _, files in sorted(os.walk(base)):
                for f in sorted(files):
                    p = os.path.join(d, f)
                    h.update(p.encode()); h.update(open(p, 'rb').read())
        for f in ('tools/structgen.py', 'tools/props.py'):
            p = os.path.join(VERIF, f)
            if os.path.exists(p):
                h.update(open(p, 'rb').read())
        _tree_hash = h.hexdigest()[:16]
    return _tree_hash


def flavours():
    """['single'] if development/ re-joins to include/hfsm2/machine.hpp byte for byte, else both."""
    try:
        data = joinmod.joined(REPO)
        cur = open(os.path.join(REPO, 'include/hfsm2/machine.hpp'), 'rb').read()
        return ['single'] if data == cur else ['single', 'dev']
    except Exception as e:  # a broken development tree still leaves the single header to check
        log('joincheck failed:', e)
        return ['single', 'dev']


# ------------------------------------------------------------------------------------------------
# building

KEEP_PER_BINARY = 3   # cached builds kept per (binary, flavour): the least recently used ones beyond that are deleted (disk space)


def _touch(path):
    try:
        os.utime(path, None)
    except OSError:
        pass


def _prune(name, flavour, keep):
    prefix = '%s-%s-' % (name, flavour)
    d = os.path.join(BUILD, 'bin')
    olds = []
    for fn in os.listdir(d):
        if fn.startswith(prefix) and len(fn) == len(prefix) + 16 and os.path.join(d, fn) != keep:
            try:
                olds.append((os.stat(os.path.join(d, fn)).st_mtime, fn))
            except OSError:
                pass
    olds.sort(reverse=True)
    now = time.time()
    for mt, fn in olds[KEEP_PER_BINARY - 1:]:
        if now - mt < 3 * 3600:   # possibly in use by a concurrent check on another tree (binaries are touched when used)
            continue
        try:
            os.unlink(os.path.join(d, fn))
        except OSError:
            pass


def build_one(spec, flavour):
    """spec: dict(name, source, defines[], sanitize(bool), link[], std, gen(optional callable -> writes generated header))
    returns (path | None, log)"""
    os.makedirs(os.path.join(BUILD, 'bin'), exist_ok=True)
    os.makedirs(os.path.join(BUILD, 'gen'), exist_ok=True)
    key = hashlib.sha256((tree_hash() + json.dumps({k: v for k, v in spec.items() if k != 'gen'}, sort_keys=True, default=str) + flavour).encode()).hexdigest()[:16]
    out = os.path.join(BUILD, 'bin', '%s-%s-%s' % (spec['name'], flavour, key))
    if os.path.exists(out):
        _touch(out)
        return out, ''
    lock = open(out + '.lock', 'w')
    fcntl.flock(lock, fcntl.LOCK_EX)
    try:
        if os.path.exists(out):
            return out, ''
        if spec.get('machine'):
            import structgen
            mname, mspec = spec['machine']
            hp = os.path.join(BUILD, 'gen', mname + '.hpp')
            text = structgen.header(mname, mspec)
            with _gen_lock:
                if not os.path.exists(hp) or open(hp).read() != text:
                    tmpn = hp + '.tmp%d' % os.getpid()
                    with open(tmpn, 'w') as fh:
                        fh.write(text)
                    os.rename(tmpn, hp)
        inc = ['-I' + os.path.join(REPO, 'include')] if flavour == 'single' else ['-I' + os.path.join(REPO, 'development'), '-DHV_DEV_FLAVOUR']
        flags = list(BASE_FLAGS)
        if spec.get('std'):
            flags[0] = '-std=' + spec['std']
        if spec.get('fuzzer'):
            flags += ['-fsanitize=fuzzer,address,undefined', '-fno-sanitize-recover=undefined', '-DHV_FUZZER']
        elif spec.get('sanitize', True):
            flags += SAN_FLAGS
        if spec.get('opt'):
            flags[1] = spec['opt']
        cmd = [spec.get('cxx', CXX)] + flags + inc + ['-I' + os.path.join(VERIF, 'harness'), '-I' + os.path.join(VERIF, 'machines'), '-I' + os.path.join(BUILD, 'gen')]
        cmd += ['-D' + d for d in spec.get('defines', [])]
        cmd += [os.path.join(VERIF, spec['source'])] if not os.path.isabs(spec['source']) else [spec['source']]
        cmd += spec.get('link', ['-lrapidcheck'])
        tmp = out + '.tmp%d' % os.getpid()
        cmd += ['-o', tmp]
        t0 = time.time()
        r = subprocess.run(cmd, stdout=subprocess.PIPE, stderr=subprocess.STDOUT, text=True)
        if r.returncode != 0:
            return None, ' '.join(cmd) + '\n' + r.stdout[-6000:]
        os.rename(tmp, out)
        log('built %s (%s) in %.1fs' % (spec['name'], flavour, time.time() - t0))
        _prune(spec['name'], flavour, out)
        return out, r.stdout
    finally:
        fcntl.flock(lock, fcntl.LOCK_UN)
        lock.close()
        try:
            os.unlink(out + '.lock')
        except OSError:
            pass


def build_all(specs, flavs):
    """returns {(name, flavour): path}; raises SystemExit(2) on failure"""
    todo = [(s, f) for s in specs for f in flavs]
    res = {}
    with ThreadPoolExecutor(max_workers=NCPU) as ex:
        for (s, f), (path, out) in zip(todo, ex.map(lambda sf: build_one(*sf), todo)):
            if path is None:
                if s.get('optional_build'):
                    log('build failed (optional, skipped): %s/%s' % (s['name'], f))
                    res[(s['name'], f)] = None
                    continue
                print('BUILD-FAILED %s (%s)\n%s' % (s['name'], f, out))
                sys.exit(2)
            res[(s['name'], f)] = path
    return res


# ------------------------------------------------------------------------------------------------
# known findings

def load_known():
    known, fixed = [], []
    p = os.path.join(VERIF, 'KNOWN_FINDINGS.txt')
    if os.path.exists(p):
        for line in open(p):
            line = line.strip()
            m = re.match(r'known: property=(\S+) id=(\S+) (.*)', line)
            if m:
                known.append(dict(property=m.group(1), id=m.group(2), what=m.group(3)))
            m = re.match(r'fixed: property=(\S+) (\S+) (.*)', line)
            if m:
                fixed.append(dict(property=m.group(1), commit=m.group(2), what=m.group(3)))
    return known, fixed


# ------------------------------------------------------------------------------------------------

_scratch = set()   # per-run scratch directories under build/run: removed when the check ends (replay files have been copied to replays/ by then)


def _drop_scratch():
    for d in list(_scratch):
        shutil.rmtree(d, ignore_errors=True)


atexit.register(_drop_scratch)


def run_job(job, binpath, prop, tier, seed, idx, known_ids, budget_s):
    """job: dict(bin, args[], cases, size, timeout). returns dict(result)"""
    rundir = os.path.join(BUILD, 'run', '%s-%s-%d' % (prop, tier, os.getpid()))
    os.makedirs(rundir, exist_ok=True)
    _scratch.add(rundir)
    tag = '%s-%02d' % (job['bin'], idx)
    stats = os.path.join(rundir, tag + '.json')
    rout = os.path.join(rundir, tag + '.case')
    pend = os.path.join(rundir, tag + '.pending')
    for p in (stats, rout, pend):
        if os.path.exists(p):
            os.unlink(p)
    env = dict(os.environ)
    jseed = (seed * 1000003 + idx * 7919 + 17) % (2 ** 31)
    env['RC_PARAMS'] = 'seed=%d max_success=%d max_size=%d' % (jseed, job['cases'], job.get('size', 100))
    env['ASAN_OPTIONS'] = 'detect_leaks=1:abort_on_error=0:symbolize=1:detect_stack_use_after_return=0'
    env['UBSAN_OPTIONS'] = 'print_stacktrace=1:halt_on_error=1'
    cmd = [binpath, '--prop', prop, '--stats', stats, '--replay-out', rout, '--pending', pend] + job.get('args', [])
    if known_ids:
        cmd += ['--known', ','.join(known_ids)]
    t0 = time.time()
    try:
        r = subprocess.run(cmd, stdout=subprocess.PIPE, stderr=subprocess.STDOUT, text=True, env=env, timeout=job.get('timeout', budget_s), errors='replace')
        rc, out = r.returncode, r.stdout
    except subprocess.TimeoutExpired as e:
        rc, out = 'timeout', (e.stdout or b'').decode(errors='replace') if isinstance(e.stdout, bytes) else (e.stdout or '')
    st = None
    if os.path.exists(stats):
        try:
            st = json.load(open(stats))
        except Exception:
            st = None
    return dict(job=job, idx=idx, rc=rc, out=out, stats=st, replay=rout if os.path.exists(rout) else None,
                pending=pend if os.path.exists(pend) else None, wall=time.time() - t0, binpath=binpath, seed=jseed)


def run_fuzz(job, binpath, prop, seed, idx, known_ids):
    rundir = os.path.join(BUILD, 'run', '%s-fuzz-%d-%d' % (prop, os.getpid(), idx))
    corpus = os.path.join(rundir, 'corpus'); arts = os.path.join(rundir, 'artifacts')
    os.makedirs(corpus, exist_ok=True); os.makedirs(arts, exist_ok=True)
    seeddir = os.path.join(VERIF, 'corpus', job['bin'].replace('fuzz_', 'walk_'))
    env = dict(os.environ, HV_PROP=prop, HV_KNOWN=','.join(known_ids), HV_STATS=os.path.join(rundir, 'stats.json'),
               ASAN_OPTIONS='detect_leaks=0:abort_on_error=0:symbolize=1', UBSAN_OPTIONS='print_stacktrace=1:halt_on_error=1')
    cmd = [binpath, corpus] + ([seeddir] if os.path.isdir(seeddir) else []) + ['-runs=%d' % job['runs'], '-seed=%d' % ((seed * 7919 + idx) % 2147483647 or 1), '-max_len=%d' % job.get('max_len', 1024),
           '-artifact_prefix=' + arts + '/', '-print_final_stats=1', '-timeout=20', '-rss_limit_mb=3000', '-len_control=20']
    t0 = time.time()
    try:
        r = subprocess.run(cmd, stdout=subprocess.PIPE, stderr=subprocess.STDOUT, text=True, env=env, timeout=job.get('timeout', 3000), errors='replace')
        out, rc = r.stdout, r.returncode
    except subprocess.TimeoutExpired as e:
        out, rc = (e.stdout or b'').decode(errors='replace') if isinstance(e.stdout, bytes) else (e.stdout or ''), 'timeout'
    execs = 0
    m = re.search(r'stat::number_of_executed_units:\s*(\d+)', out)
    if m:
        execs = int(m.group(1))
    crashes = sorted(f for f in os.listdir(arts) if f.startswith('crash-') or f.startswith('leak-'))
    timeouts = sorted(f for f in os.listdir(arts) if f.startswith('timeout-'))
    st = None
    if os.path.exists(os.path.join(rundir, 'stats.json')):
        try:
            st = json.load(open(os.path.join(rundir, 'stats.json')))
        except Exception:
            st = None
    return dict(job=job, rc=rc, out=out, execs=execs, crashes=[os.path.join(arts, f) for f in crashes], timeouts=[os.path.join(arts, f) for f in timeouts], wall=time.time() - t0, stats=st, rundir=rundir)


def replay(binpath, prop, path, known_ids, extra_args, timeout=120):
    cmd = [binpath, '--prop', prop, '--replay', path] + extra_args
    if known_ids:
        cmd += ['--known', ','.join(known_ids)]
    env = dict(os.environ)
    env['ASAN_OPTIONS'] = 'detect_leaks=1:abort_on_error=0:symbolize=1:detect_stack_use_after_return=0'
    env['UBSAN_OPTIONS'] = 'print_stacktrace=1:halt_on_error=1'
    try:
        r = subprocess.run(cmd, stdout=subprocess.PIPE, stderr=subprocess.STDOUT, text=True, env=env, timeout=timeout, errors='replace')
        return r.returncode, r.stdout
    except subprocess.TimeoutExpired as e:
        return 'timeout', ''


def run_custom(prop, tier, seed, flavs, replay_path):
    import importlib
    mod = importlib.import_module(props.PROPS[prop]['custom'])
    spec = props.PROPS[prop]
    if replay_path:
        ok = mod.replay(replay_path, REPO, flavs)
        if not ok:
            print('VIOLATION property=%s replay=%s' % (prop, replay_path))
        return 0 if ok else 1
    os.makedirs(os.path.join(OUT, 'evidence'), exist_ok=True)
    os.makedirs(BUILD, exist_ok=True)
    cov, violations, undecided, wall = mod.run(tier, seed, REPO, BUILD, OUT, flavs, props.ZOO)
    cov['tree_hash'] = tree_hash()
    ev = dict(property_id=prop, tier=tier, seed=seed, level=spec.get('level', 'exploration'), coverage=cov, assumptions=spec.get('assumptions', []), wall_s=round(wall, 1), violations=len(violations))
    json.dump(ev, open(os.path.join(OUT, 'evidence', prop + '.json'), 'w'), indent=1)
    print('%s %s: %d cases, %d distinct non-trivial, %.1fs, violations=%d' % (prop, tier, cov['evaluations'], cov['distinct_nontrivial'], wall, len(violations)))
    for v in violations[:10]:
        print('  ' + v['message'])
        print('VIOLATION property=%s replay=%s' % (prop, v['replay']))
    if violations:
        return 1
    if undecided:
        for p, o in undecided[:3]:
            print('UNDECIDED (does not compile) %s\n%s' % (p, o))
        return 2
    return 0


def main():
    args = sys.argv[1:]
    if not args:
        print(__doc__); sys.exit(2)
    tier = os.environ.get('VERIF_TIER', 'quick')
    replay_path = None
    prop = None
    i = 0
    while i < len(args):
        if args[i] == '--tier':
            tier = args[i + 1]; i += 2
        elif args[i] == '--replay':
            replay_path = args[i + 1]; i += 2
        elif args[i] == '--setup':
            prop = '--setup'; i += 1
        else:
            prop = args[i]; i += 1
    seed = int(os.environ.get('VERIF_SEED', '1') or 1)
    budget = int(os.environ.get('VERIF_BUDGET_S', '3000'))
    flavs = flavours()

    if prop == '--setup':
        specs = {}
        for p in props.PROPS:
            for s in props.specs_for(p, 'quick', seed):
                specs[s['name']] = s
        build_all(list(specs.values()), flavs)
        print('setup ok: %d binaries' % (len(specs) * len(flavs)))
        return 0

    if prop not in props.PROPS:
        print('unknown property', prop); sys.exit(2)
    t0 = time.time()
    if props.PROPS[prop].get('custom'):
        return run_custom(prop, tier, seed, flavs, replay_path)
    known, fixed = load_known()
    known_here = [k for k in known if prop in k['property'].split(',')]   # a finding can be visible to several properties' oracles
    known_ids = [k['id'] for k in known_here]

    specs = props.specs_for(prop, tier, seed)
    bins = build_all(specs, flavs)
    jobs = props.jobs_for(prop, tier, seed)

    if replay_path:
        # the replay file name carries the binary:  <prop>-<bin>-<flavour>[-...].case
        base = os.path.basename(replay_path)
        m = re.match(r'%s-(.+?)-(single|dev)(?:-.*)?\.case$' % re.escape(prop), base)
        cands = [(b, f) for (b, f) in bins if m and b == m.group(1) and f == m.group(2)] or list(bins)
        job_args = {j['bin']: j.get('args', []) for j in jobs}
        worst = 0
        for (b, f) in cands:
            rc, out = replay(bins[(b, f)], prop, replay_path, known_ids, job_args.get(b, []))
            print(out)
            if rc != 0:
                worst = 1
        if worst:
            print('VIOLATION property=%s replay=%s' % (prop, replay_path))
        return worst

    # run
    runs = []
    with ThreadPoolExecutor(max_workers=NCPU) as ex:
        futs = []
        idx = 0
        for f in flavs:
            for j in jobs:
                bp = bins.get((j['bin'], f))
                if bp is None:
                    continue
                futs.append(ex.submit(run_job, dict(j, flavour=f), bp, prop, tier, seed, idx, known_ids, budget))
                idx += 1
        for fu in futs:
            runs.append(fu.result())

    os.makedirs(os.path.join(OUT, 'replays'), exist_ok=True)
    os.makedirs(os.path.join(OUT, 'evidence'), exist_ok=True)
    violations = []
    undecided = []
    # coverage-guided campaigns (thorough tier): same byte format, same oracles inside LLVMFuzzerTestOneInput
    fuzz_runs = []
    fuzz_jobs = props.PROPS[prop].get('fuzz', []) if tier == 'thorough' else []
    if fuzz_jobs:
        fspecs = [props.UNITS[j['bin']] for j in fuzz_jobs] + [props.UNITS[j['replay_bin']] for j in fuzz_jobs]
        fbins = build_all(fspecs, ['single'])
        with ThreadPoolExecutor(max_workers=NCPU) as ex:
            futs = [ex.submit(run_fuzz, j, fbins[(j['bin'], 'single')], prop, seed, k, known_ids) for k, j in enumerate(fuzz_jobs)]
            fuzz_runs = [fu.result() for fu in futs]
        for fr in fuzz_runs:
            j = fr['job']
            for n, art in enumerate(fr['crashes'][:3]):
                dst = os.path.join(OUT, 'replays', '%s-%s-single-fuzz%d.case' % (prop, j['replay_bin'], n))
                shutil.copyfile(art, dst)
                fails, last = 0, ''
                for _ in range(3):
                    rc, out = replay(fbins[(j['replay_bin'], 'single')], prop, dst, known_ids, [])
                    last = out
                    fails += rc != 0
                if fails == 3:
                    m = re.search(r'REPLAY-FAIL (.*)', last)
                    violations.append(dict(name=j['bin'], replay=dst, message=m.group(1) if m else 'crash found by libFuzzer reproduces', output=last[-3000:]))
                else:
                    log('fuzzer artifact %s does not reproduce (%d/3)' % (art, fails))
            if fr['timeouts'] and props.PROPS[prop].get('hang_is_violation'):
                dst = os.path.join(OUT, 'replays', '%s-%s-single-fuzzhang.case' % (prop, j['replay_bin']))
                shutil.copyfile(fr['timeouts'][0], dst)
                rc, out = replay(fbins[(j['replay_bin'], 'single')], prop, dst, known_ids, [], timeout=60)
                if rc == 'timeout':
                    violations.append(dict(name=j['bin'], replay=dst, message='the library does not return (hang) on this case', output=''))
            shutil.rmtree(fr['rundir'], ignore_errors=True)
    agg = dict(evaluations=0, distinct_nontrivial=0, classes={}, known={}, samples=[], binaries=[])
    rule = ''
    for r in runs:
        st = r['stats']
        j = r['job']
        name = '%s-%s-%s' % (prop, j['bin'], j['flavour'])
        if st:
            agg['evaluations'] += st['evaluations']
            agg['distinct_nontrivial'] += st['distinct_nontrivial']
            for k, v in st['classes'].items():
                agg['classes'][k] = agg['classes'].get(k, 0) + v
            for k, v in st['known'].items():
                agg['known'][k] = agg['known'].get(k, 0) + v
            for s in st['samples'][: max(1, 12 // max(1, len(runs)))]:
                agg['samples'].append('[%s] %s' % (j['bin'], s))
            rule = rule or st.get('rule', '')
        agg['binaries'].append(dict(binary=j['bin'], flavour=j['flavour'], args=j.get('args', []), rc=r['rc'], wall_s=round(r['wall'], 1), rc_seed=r['seed'],
                                    evaluations=st['evaluations'] if st else None, distinct_nontrivial=st['distinct_nontrivial'] if st else None))
        if r['rc'] == 0:
            continue
        # something went wrong: find the input
        case = r['replay'] or r['pending']
        if r['rc'] == 'timeout' and not props.PROPS[prop].get('hang_is_violation'):
            log('job %s hit its time budget: inconclusive for the rest' % name)
            agg.setdefault('budget_exhausted', []).append(name)
            continue
        if case is None:
            undecided.append((name, r))
            continue
        dst = os.path.join(OUT, 'replays', name + '.case')
        shutil.copyfile(case, dst)
        fails = 0
        last = ''
        for _ in range(3):
            rc, out = replay(r['binpath'], prop, dst, known_ids, j.get('args', []))
            last = out
            if rc != 0:
                fails += 1
        if fails == 3:
            msg = ''
            m = re.search(r'REPLAY-FAIL (.*)', last)
            if m:
                msg = m.group(1)
            elif 'ERROR: AddressSanitizer' in last or 'runtime error' in last:
                m = re.search(r'(ERROR: AddressSanitizer[^\n]*|[^\n]*runtime error[^\n]*)', last)
                msg = m.group(1) if m else 'sanitizer report'
            else:
                msg = (st or {}).get('first_failure', '') or 'replay exits %s' % rc
            violations.append(dict(name=name, replay=dst, message=msg, output=last[-3000:]))
        else:
            log('job %s failed (rc=%s) but its case does not fail on replay (%d/3): treated as not reproducible' % (name, r['rc'], fails))
            agg.setdefault('not_reproducible', []).append(name)
            undecided.append((name, r))

    for fr in fuzz_runs:
        agg['evaluations'] += fr['execs']
        if fr['stats']:
            agg['distinct_nontrivial'] += fr['stats'].get('distinct_nontrivial', 0)
            for k, v in fr['stats'].get('known', {}).items():
                agg['known'][k] = agg['known'].get(k, 0) + v
        agg['binaries'].append(dict(binary=fr['job']['bin'], flavour='single', engine='libFuzzer', executions=fr['execs'], rc=fr['rc'], wall_s=round(fr['wall'], 1), crashes=len(fr['crashes']), timeouts=len(fr['timeouts'])))
    wall = time.time() - t0
    spec = props.PROPS[prop]
    ev = dict(property_id=prop, tier=tier, seed=seed, level=spec.get('level', 'exploration'),
              coverage=dict(evaluations=agg['evaluations'], distinct_nontrivial=agg['distinct_nontrivial'],
                            rule=rule or spec.get('rule', ''), samples=agg['samples'][:16], classes=agg['classes'],
                            known_finding_hits=agg['known'], binaries=agg['binaries'], flavours=flavs,
                            flavours_textually_identical=(flavs == ['single']),
                            budget_exhausted=agg.get('budget_exhausted', []), not_reproducible=agg.get('not_reproducible', []),
                            tree_hash=tree_hash()),
              assumptions=spec.get('assumptions', []), wall_s=round(wall, 1), violations=len(violations))
    json.dump(ev, open(os.path.join(OUT, 'evidence', prop + '.json'), 'w'), indent=1)

    for k in known_here:
        hits = agg['known'].get(k['id'], 0)
        print('KNOWN-FINDING: property=%s %s %s (seen %d times in this run)' % (prop, k['id'], k['what'], hits))
    # generator health: warn when a class the property needs stays rare
    for cname, minfrac in spec.get('need_classes', {}).items():
        got = agg['classes'].get(cname, 0)
        if agg['evaluations'] and got < minfrac * agg['evaluations']:
            log('WARNING: class %s only %d of %d cases' % (cname, got, agg['evaluations']))
    print('%s %s: %d cases, %d distinct non-trivial, %d binaries, %.1fs, violations=%d' % (prop, tier, agg['evaluations'], agg['distinct_nontrivial'], len(runs), wall, len(violations)))
    if violations:
        for v in violations:
            print(v['output'][-1500:])
            print('  %s' % v['message'])
            print('VIOLATION property=%s replay=%s' % (prop, v['replay']))
        return 1
    if undecided:
        for name, r in undecided:
            print('UNDECIDED %s rc=%s\n%s' % (name, r['rc'], (r['out'] or '')[-3000:]))
        return 2
    return 0


if __name__ == '__main__':
    sys.exit(main())
