#!/bin/bash
# runs every registered quick (or $1 = thorough) check in sequence and prints one summary line per property
cd "$(dirname "$0")/.."
TIER=${1:-quick}
for p in C01 C02 C03 C04 C05 C06 C07 C08 C09 C10 C11 C12 C13 C14 C15 C16 C17 C18 C19 C20; do
  out=$(python3 tools/check.py $p --tier $TIER 2>&1); rc=$?
  echo "$p rc=$rc $(echo "$out" | grep "$TIER:" | tail -1)"
  echo "$out" | grep "^VIOLATION\|REPLAY-FAIL\|UNDECIDED\|BUILD-FAILED" | head -4 | cut -c1-400
done
