"""Which binaries and which runs decide which property (read by check.py)."""

# ---- build specs -------------------------------------------------------------------------------

def unit(name, **kw):
    return dict(name=name, source='harness/%s.cpp' % name, **kw)

UNITS = {
    'units_bits': unit('units_bits'),
    'units_pool': unit('units_pool'),
    'units_rng': unit('units_rng'),
    # same harness built with g++: the reference fixes the order in which a 32-bit generator draws the halves of a
    # 64-bit number, so a compiler-dependent evaluation order in the library shows up as a mismatch here
    'units_rng_gcc': dict(name='units_rng_gcc', source='harness/units_rng.cpp', cxx='g++', sanitize=False, opt='-O2'),
}

# ---- properties --------------------------------------------------------------------------------

PROPS = {
    'C18': dict(
        level='exploration',
        claim='Randomised op sequences on BitArrayT<N> (16 capacities, views, static and dynamic indices) and (width,value) sequences on bit streams (5 capacities, 8 start alignments) are compared with vector<bool> / value-list models after every op, under ASan+UBSan with the library assertions live. Exploration only: absence of violations is claimed for the explored cases.',
        note='Trusted: the std::vector<bool> model, clang sanitizers. Views are taken inside the capacity; values fit their width; operator& checked one-directionally.',
        technique='model-based property testing (rapidcheck) of containers against std:: models',
        bins=['units_bits'],
        quick=[dict(bin='units_bits', cases=60000, size=60)],
        thorough=[dict(bin='units_bits', cases=400000, size=s, args=[]) for s in (20, 60, 100, 200)] * 2,
        assumptions=['values written to a stream fit their width (the serializer only writes such values)',
                     'a view owns whole storage units: clear() of a view may also clear the unused bits of its last unit',
                     'operator& is only required not to report an intersection of disjoint sets'],
    ),
    'C19': dict(
        level='exploration',
        claim='Randomised emplace/remove/clear sequences on TaskListT<void|int, N> and append/bulk-append/copy/clear/write sequences on DynamicArrayT / StaticArrayT (7 capacities) are compared with std::map / std::vector models after every op, canaries around the object, library verifyStructure() assertions live, ASan+UBSan.',
        note='Trusted: the std:: models. remove() only on live indices. The deliberate break in the full branch of emplace is tolerated here and reported under C11.',
        technique='model-based property testing (rapidcheck) of containers against std:: models',
        bins=['units_pool'],
        quick=[dict(bin='units_pool', cases=40000, size=100)],
        thorough=[dict(bin='units_pool', cases=500000, size=s) for s in (30, 100, 200, 400)] * 2,
        assumptions=['remove() is only called with the index of a live item (the plan code never does otherwise)',
                     'the deliberate HFSM2_BREAK() in the full branch of TaskListT::emplace is tolerated here (recorded under C11 as F21)'],
    ),
    'C20': dict(
        level='exploration',
        claim='All six bundled generators are compared output by output (uint32/uint64/float32/float64, up to 2000 outputs, before and after jump()) with reference splitmix32/64 and xoshiro128/256 +/** implementations anchored by published vectors, for generated seeds, constructed seeds that force the zero-rejection loop, explicit states and the default seed; floats are checked to lie in [0,1); the same harness is built with clang++ and g++ so compiler-dependent evaluation order shows.',
        note='Trusted: the reference implementations (self-tested against published vectors at start-up). Only the 64-bit pointer width of this sandbox is run; the 32-bit variants are instantiated explicitly.',
        technique='differential testing against reference PRNG implementations (rapidcheck), two compilers',
        bins=['units_rng', 'units_rng_gcc'],
        quick=[dict(bin='units_rng', cases=40000, size=100), dict(bin='units_rng_gcc', cases=40000, size=100)],
        thorough=[dict(bin='units_rng', cases=150000, size=100)] * 6 + [dict(bin='units_rng_gcc', cases=150000, size=100)] * 2,
        assumptions=['reference generators are written from the published algorithms and anchored by published vectors (checked at start-up)',
                     'an explicit all-zero 4-word state is the caller\'s error and is not generated',
                     '"every platform": the 64-bit build only, with clang++ and g++'],
    ),
}


def specs_for(prop, tier, seed):
    return [UNITS[b] for b in PROPS[prop]['bins']]


def jobs_for(prop, tier, seed):
    return [dict(j) for j in PROPS[prop][tier]]


NOT_APPLICABLE = {}
