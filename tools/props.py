"""Which binaries and which runs decide which property (read by check.py)."""

# ---- build specs -------------------------------------------------------------------------------

def unit(name, **kw):
    return dict(name=name, source='harness/%s.cpp' % name, **kw)

UNITS = {
    'units_bits': unit('units_bits'),
    'units_pool': unit('units_pool'),
    'units_rng': unit('units_rng'),
    # same harness built with g++: the reference fixes the order in which a 32-bit generator draws the halves of a
    # 64-bit number, so a compiler-dependent evaluation order in the library shows up as a mismatch here
    'units_rng_gcc': dict(name='units_rng_gcc', source='harness/units_rng.cpp', cxx='g++', sanitize=False, opt='-O2'),
}

# ---- machine zoo (tools/structgen.py grammar) ---------------------------------------------------

ZOO = {
    'z01_kitchen':   'C[C[..R[...]]O[S[..]U[...]N[..].]c[..]C[C[.C[..]].]]',     # every region kind, headless region, nesting depth 4
    'z02_noortho':   'C[R[..S[...]]U[.N[..].]c[.r[..]]S[..]]',                    # no orthogonal region: second registry specialisation
    'z03_orthoroot': 'O[C[..]R[...]o[.C[..]]U[..]]',                              # orthogonal root, nested headless orthogonal
    'z04_nested':    'C[S[C[..]R[..]]U[C[..]N[..]S[..]]N[R[..]U[..]O[.C[..]]]]',  # regions as sub-states of select/utilize/random regions
    'z05_tiny':      'c[..]',                                                     # PeerRoot<A,B>: request queue of one
    'z06_plans':     'C[C[...]O[C[..]C[..].]C[.C[..]]]',                          # plan-owning regions nested in composite and orthogonal regions
    'z07_utility':   'U[N[...]U[..]n[..]u[...]O[U[..]N[..]]]',                    # utilitarian root, ranks and utilities everywhere, headless utility regions
    'z08_wide':      'C[O[........]O[.........]R[.....]]',                        # orthogonal regions of 8 and 9 (bit units cross a byte), width 5
    'z09_headless':  'c[r[..]o[s[..]u[..]]n[..]]',                                # every region headless
    'z10_roots_r':   'R[C[..]R[..].]',                                            # resumable root
    'z11_roots_n':   'N[.C[..]R[..]]',                                            # random root (first activation draws)
    'z12_roots_s':   's[.C[..]O[..]]',                                            # headless selectable root
    'z13_res_util':  'C[U[R[.C[..]N[..]].]N[R[C[..]S[..]]u[..]].R[.U[..]]]',      # resumable regions with region-valued sub-states under utilitarian / random regions
    'z14_mix':       'R[S[N[..]R[.C[..]]]O[R[.C[..]]U[R[..].]].]',                # resumable root, random under selectable, resumable under orthogonal and utilitarian
    'z15_units':     'C[O[O[..........]C[.C[..]]]O[C[.C[..]]R[..].]O[........]]',  # a 10-wide orthogonal region (two bit units) inside an orthogonal region, followed there by a sub-state with regions, and declared before another orthogonal region with nested regions; the last orthogonal region is exactly 8 wide
}


def walker(machine, cfg=''):
    """cfg letters: m manual activation, b bottom-up reactions, r built-in RNG, v verbose logging, p1/p2/p3 payload int/struct32/aligned16,
    s2 substitution limit 2, t5 task capacity 5"""
    d = ['HV_MACHINE_HEADER="%s.hpp"' % machine]
    i = 0
    while i < len(cfg):
        c = cfg[i]
        if c == 'm': d.append('HV_MANUAL')
        elif c == 'b': d.append('HV_BOTTOMUP')
        elif c == 'r': d.append('HV_RNG_BUILTIN')
        elif c == 'v': d.append('HV_VERBOSE_LOG')
        elif c == 'p': d.append('HV_PAYLOAD=%s' % cfg[i + 1]); i += 1
        elif c == 's': d.append('HV_SUBST_LIMIT=%s' % cfg[i + 1]); i += 1
        elif c == 't': d.append('HV_TASK_CAP=%s' % cfg[i + 1]); i += 1
        i += 1
    name = 'walk_%s_%s' % (machine, cfg or 'a')
    return dict(name=name, source='harness/hv_walk.cpp', defines=d, machine=(machine, ZOO[machine]))


# the quick-tier walker set: every structure once with manual activation + configuration variations
WALKERS = [
    walker('z01_kitchen', 'm'), walker('z01_kitchen', 'bp1'), walker('z01_kitchen', 'mvs2'),
    walker('z02_noortho', 'm'), walker('z02_noortho', 'bp2'),
    walker('z03_orthoroot', 'm'), walker('z03_orthoroot', ''),
    walker('z04_nested', 'm'), walker('z04_nested', 'p3'),
    walker('z05_tiny', 'm'), walker('z05_tiny', 'p1s2'),
    walker('z06_plans', 'm'), walker('z06_plans', 'bt5'),
    walker('z07_utility', 'm'), walker('z07_utility', 'r'),
    walker('z08_wide', 'm'),
    walker('z09_headless', 'm'),
    walker('z10_roots_r', 'm'), walker('z11_roots_n', ''), walker('z11_roots_n', 'mr'), walker('z12_roots_s', 'm'),
    walker('z03_orthoroot', 'mp1'), walker('z06_plans', 'p2'), walker('z08_wide', 'bp3'), walker('z11_roots_n', 'r'), walker('z04_nested', 'r'),
    walker('z13_res_util', 'm'), walker('z13_res_util', 'bp1'), walker('z14_mix', 'm'), walker('z14_mix', ''),
    walker('z15_units', 'm'), walker('z15_units', 'b'),
]
PAYLOAD_WALKERS = [w['name'] for w in WALKERS if 'HV_PAYLOAD' in ' '.join(w['defines'])]
MANUAL_WALKERS = [w['name'] for w in WALKERS if 'HV_MANUAL' in w['defines'] and 'HV_RNG_BUILTIN' not in w['defines']]
SELECT_ZOO = {
    'zs_select': 'C[U[.........]N[.........]U[N[...]O[..].]N[U[..]O[.N[..]].]n[..]u[.N[..]]S[U[..]N[..]]]',   # widths 9, nesting of utilitarian/random/orthogonal/headless
    'zs_widths': 'C[U[.]N[.]U[..]N[..]U[....]N[....]N[.....]U[........]N[........]R[N[...].]]',              # flat regions of width 1,2,4,5,8
}
ZOO.update(SELECT_ZOO)
SELECTORS = []
for mname in SELECT_ZOO:
    for cfg, defs in (('m', ['HV_MANUAL']), ('a', [])):
        SELECTORS.append(dict(name='select_%s_%s' % (mname, cfg), source='harness/hv_select.cpp', defines=['HV_MACHINE_HEADER="%s.hpp"' % mname] + defs, machine=(mname, SELECT_ZOO[mname])))
FUZZERS = []
for mname, cfg in (('z01_kitchen', 'm'), ('z02_noortho', 'm'), ('z04_nested', 'm'), ('z03_orthoroot', ''), ('z06_plans', 'm')):
    w = walker(mname, cfg)
    FUZZERS.append(dict(w, name=w['name'].replace('walk_', 'fuzz_'), fuzzer=True, link=[]))
for w in WALKERS + SELECTORS + FUZZERS:
    UNITS[w['name']] = w


def fuzz_jobs(runs, names=None, instances=3):
    # every fuzz target runs as `instances` independent single-threaded libFuzzer processes (own seed, own corpus) that share the run budget
    return [dict(bin=f['name'], replay_bin=f['name'].replace('fuzz_', 'walk_'), runs=runs // instances, max_len=8 + 32 * 24)
            for f in FUZZERS if names is None or f['name'] in names for _ in range(instances)]
UNITS['units_plan'] = unit('units_plan')
SELECT_NAMES = [w['name'] for w in SELECTORS]
WALKER_NAMES = [w['name'] for w in WALKERS]


def walk_jobs(names, cases, size, args=None):
    return [dict(bin=n, cases=cases, size=size, args=list(args or [])) for n in names]


# ---- properties --------------------------------------------------------------------------------

PROPS = {
    'C01': dict(
        level='exploration', bins=WALKER_NAMES, fuzz=fuzz_jobs(400000),
        quick=walk_jobs(WALKER_NAMES, 6000, 40), thorough=walk_jobs(WALKER_NAMES, 20000, 60),
        claim='The configuration invariant (root active iff activated, active only under an active parent, exactly one active sub-state per active composite region named by activeSubState(), all sub-states of an active orthogonal region active) is evaluated from the public answers after every API call and, through the Control object, inside every update/react/query/guard callback, over generated histories on 15 machine structures x several configurations, ASan+UBSan, library assertions live.',
        note='Trusted: the generated structure table (independent DFS of tools/structgen.py). Not evaluated inside enter/exit/reenter and select/rank/utility (the statement excludes the middle of applying a transition).',
        technique='stateful property-based testing (rapidcheck): invariant over generated API/callback histories',
    ),
    'C02': dict(
        level='exploration', bins=WALKER_NAMES, fuzz=fuzz_jobs(400000),
        quick=walk_jobs(WALKER_NAMES, 6000, 40), thorough=walk_jobs(WALKER_NAMES, 20000, 60),
        claim='After every processing step the active and resumable configuration read through isActive/isResumable is compared with a reference model of the transition rules (written from the property statement over the generated structure table), applied to the approved guard rounds observed in the trace; reset() and first activation are compared with the model\'s initial activation; queued requests and query() must change nothing.',
        note='Trusted: the reference model (hv_model.hpp). Batches whose requests overlap (one request re-targets an ancestor region of another) are checked for the postcondition only (destination of the last request and its ancestors active); agreement with the sequential model on them is reported as a statistic.',
        technique='model-based differential testing (rapidcheck) against a reference interpreter of the transition rules',
    ),
    'C03': dict(
        level='exploration', bins=WALKER_NAMES, fuzz=fuzz_jobs(300000),
        quick=walk_jobs(WALKER_NAMES, 6000, 40), thorough=walk_jobs(WALKER_NAMES, 20000, 60),
        claim='A history invariant over the recorded callback trace of every instance: enter/exit alternate per state starting with enter, every other callback only reaches entered states, parents are entered before and exited after their sub-states, the entered set equals the active set after every API call, nothing stays entered after exit()/destruction, and every callback ran on the object access<State>() returns.',
        note='Does not judge whether a region re-targeted in place is re-entered or exited and entered. Anonymous heads have no callbacks and are skipped.',
        technique='stateful property-based testing (rapidcheck): history invariant over callback traces',
    ),
    'C04': dict(
        level='exploration', bins=WALKER_NAMES, fuzz=fuzz_jobs(300000),
        quick=walk_jobs(WALKER_NAMES, 6000, 40), thorough=walk_jobs(WALKER_NAMES, 20000, 60),
        claim='Guard rounds are segmented from the trace (scripted guards cancel and/or substitute requests of any kind): lifecycle callbacks only after the last guard, exit guards before entry guards, every guard sees the pending list that was requested for its round, every state that is exited/entered/re-entered had its guard invoked in the last approved round, an all-vetoed step leaves active and resumable configuration unchanged (apart from schedule marks), the final configuration equals the model applied to approved rounds only, the per-state exit/enter/re-enter counts equal those the approved rounds lead to, and there are at most SUBSTITUTION_LIMIT rounds (limits 2 and 4). Metamorphic twin run: when every round after the last approved one was vetoed, the whole case is executed again with the guard requests that led to the vetoed rounds neutralised; lifecycle callbacks and active/resumable configuration of every step must be identical (decides overlapping batches without the model).',
        note='Round boundaries are detected from control.requests().count() inside guards. Trusted: the reference model for the final configuration. Known findings F34 and F35 (requests re-resolved when later requests of the step are forwarded) are tolerated only in their exact situation.',
        technique='stateful property-based testing (rapidcheck) with scripted guards; trace invariants + model differential',
    ),
    'C05': dict(
        level='exploration', bins=WALKER_NAMES,
        quick=walk_jobs(WALKER_NAMES, 6000, 40), thorough=walk_jobs(WALKER_NAMES, 20000, 60),
        claim='For every update()/react<handled event>()/react<unhandled event>()/query() the recorded callback sequence (state, method, injected-or-own) is compared for equality with the sequence a 40-line model derives from the active configuration, the declaration order, the configured reaction order (TopDown and BottomUp binaries) and the scripted consumption point; query() must leave the configuration untouched and invoke nothing but query handlers.',
        note='Trusted: the order model (head before sub-states, orthogonal sub-states in declaration order, injected before own on the way down, own before injected on the way up, a phase stops at the first state boundary after consumption).',
        technique='model-based property testing (rapidcheck): exact sequence comparison with a reference order model',
    ),
    'C06': dict(
        level='exploration', bins=WALKER_NAMES,
        quick=walk_jobs(WALKER_NAMES, 5000, 40), thorough=walk_jobs(WALKER_NAMES, 20000, 60),
        claim='Plans are edited from outside and from callbacks (all task kinds, cyclic tasks, several per origin, destinations outside the region, payloads), states report success/failure from every update/react phase, externally and from guards. Safety, on every update/react step: every request issued on behalf of a region head (seen through the logger) must be justified by a task of that region\'s plan whose origin is active and succeeded (this step or carried mark) and that is not behind a task with an inactive origin; it is removed exactly once and every other task stays; planSucceeded/planFailed need a report of the same kind earlier in the step; marks do not survive the step or the exit of their state (tracked across steps). Liveness, on steps that meet the statement\'s premises literally (exactly one reporter, a sub-state of the innermost plan-owning region, nothing else reported or requested): the tasks of that origin are executed in order / the head receives planSucceeded when the plan is empty / planFailed on failure.',
        note='Known findings F12 (tasks run as change) and F13 (status accumulator) are tolerated in exactly their situation; liveness is not demanded where F13 applies. Steps with the logger detached are not judged (plan-issued requests are observed through it).',
        technique='stateful property-based testing (rapidcheck): safety invariant over plan/trace histories + liveness under literal premises',
    ),
    'C07': dict(
        level='exploration', bins=['units_plan'] + ['walk_z06_plans_m', 'walk_z06_plans_bt5', 'walk_z06_plans_p2'],
        quick=[dict(bin='units_plan', cases=40000, size=100)] + walk_jobs(['walk_z06_plans_m', 'walk_z06_plans_bt5', 'walk_z06_plans_p2'], 6000, 40),
        thorough=[dict(bin='units_plan', cases=300000, size=s) for s in (50, 100, 200, 400)] + walk_jobs(['walk_z06_plans_m', 'walk_z06_plans_bt5', 'walk_z06_plans_p2'], 40000, 60),
        claim='Interleaved append (all seven kinds, cyclic tasks, out-of-region destinations, int payloads) / remove-while-iterating / clear operations across the six regions of a 14-state machine with task capacity 5, 12 and the default (manual activation: also exit()+enter(), which must wipe every plan and return the whole capacity) are compared, after every operation, with one std::vector per region: iteration order and contents of every plan, append returning false exactly at capacity and changing nothing, freed slots reusable; update() runs the library\'s verifyPlans() with assertions live; canaries around the instance. The plan-heavy walkers additionally edit plans from callbacks while plans execute.',
        note='Origins are states of the plan\'s region (documented use).',
        technique='model-based property testing (rapidcheck) of plan storage against per-region vectors',
    ),
    'C12': dict(
        level='exploration', bins=SELECT_NAMES,
        quick=[dict(bin=n, cases=8000, size=30) for n in SELECT_NAMES], thorough=[dict(bin=n, cases=100000, size=40) for n in SELECT_NAMES] * 2,
        claim='On two selection machines (flat utilitarian/random regions of width 1,2,4,5,8,9 and nested utilitarian/random/orthogonal/headless regions) every utility and random resolution the library reports is validated in long double: utilize picks a sub-state whose utility is maximal within 4 float ulp, the first one on exact ties; randomize picks a top-rank sub-state with positive utility whose cumulative interval contains r*sum within 2^-20*sum, never none; generator outputs consumed = random regions resolved; the activated configuration follows the reported picks. Generator outputs include values computed from the case\'s own cumulative sums nudged by -2..2 ulp, 1-2^-24, 1-2^-23, 2^-24, 0; utilities include 0, 1e-6, 1e6 and non-dyadic values; ranks -2..2.',
        note='Trusted: the extended-precision re-evaluation (written from the property statement) and the logger as the source of the picks of evaluated-but-not-activated candidates. Cases whose top-rank sum is not positive are repaired by construction, not filtered.',
        technique='property-based testing (rapidcheck) with boundary-directed generators; validity predicate in extended precision',
    ),
    'C08': dict(
        level='exploration', bins=WALKER_NAMES,
        quick=walk_jobs(WALKER_NAMES, 6000, 40), thorough=walk_jobs(WALKER_NAMES, 20000, 60),
        claim='Two instances of one machine are driven by independent generated prefixes (including never activated / exited under manual activation), then save(A) -> load(B): isActive/isResumable of B equal A\'s for every state, save(B) is byte-identical, A is untouched (no callback, same configuration), exit is delivered exactly once to every state that stops being active and enter exactly once to every state that becomes active, no guard is consulted, the buffer sits between canaries under ASan and its bit capacity equals the number derived from the structure.',
        note='States that stay active across the load are only constrained by C03 (the library re-enters them).',
        technique='round-trip property testing (rapidcheck) over pairs of generated instance states',
    ),
    'C09': dict(
        level='exploration', bins=MANUAL_WALKERS + ['walk_z03_orthoroot_a', 'walk_z11_roots_n_a'],
        quick=walk_jobs(MANUAL_WALKERS + ['walk_z03_orthoroot_a', 'walk_z11_roots_n_a'], 6000, 40), thorough=walk_jobs(MANUAL_WALKERS + ['walk_z03_orthoroot_a', 'walk_z11_roots_n_a'], 20000, 60),
        claim='After every processing step previousTransitions() is compared with the concatenation of the approved guard rounds\' pending lists (rounds segmented from the trace), lastTransitionTo() must be null or point into that array and, after a single approved request, at entry 0 for every state on the destination path the request activated; a replica instance replays previousTransitions() after every step and must reach the same active configuration without any guard being consulted (and the same resumable marks for single-round steps without schedule).',
        note='Known findings F15 and F30 are tolerated only in their exact situation. The replica receives the same select/utility/rank answers and one constant generator value per step.',
        technique='differential property testing (rapidcheck): authority vs replica by replay, history vs trace',
    ),
    'C13': dict(
        level='exploration', bins=WALKER_NAMES,
        quick=walk_jobs(WALKER_NAMES, 6000, 40), thorough=walk_jobs(WALKER_NAMES, 20000, 60),
        claim='In every step with exactly one guard round evaluating exactly one pending transition request the guards tabulate isPendingEnter/Exit/Change for all state ids at the start of the round; the table is compared with the net activations/deactivations the step actually performed (states re-entered in place are not judged). activeSubState() is compared with the active sub-states after every API call (also reported under C01); isScheduled() must equal isResumable(); after a single approved resume request on a composite-style region the sub-state reported resumable before the request (none: the first) must be the active one.',
        note='Between steps the three queries are checked to be false for every id after each API call.',
        technique='property-based testing (rapidcheck): query tables inside guards vs observed outcome',
    ),
    'C14': dict(
        level='exploration', bins=PAYLOAD_WALKERS,
        quick=walk_jobs(PAYLOAD_WALKERS, 12000, 40), thorough=walk_jobs(PAYLOAD_WALKERS, 40000, 60),
        claim='Every request (external, from callbacks, with or without payload; int, 32-byte struct and alignas(16) struct payloads) carries a unique tag; guards must see exactly the issued tags on the pending transitions of their round, every lifecycle callback must see currentTransitions() equal to the approved transitions with their tags, previousTransitions() and lastTransitionTo() must return the same tags afterwards, payload-less requests must expose no payload, payload storage must be aligned. Plan tasks: an accepted append is read back at once (same origin, destination, kind and payload tag), and the tag of the task a region executes is expected on the pending transition of the next guard round. Requests issued by entry guards during an activation are judged like any other (currentTransitions() inside enter(), history afterwards).',
        note='The 32-byte and over-aligned payloads carry redundancy so that a partially copied payload is detected.',
        technique='property-based testing (rapidcheck): tagged payload tracking through guards, lifecycle callbacks and history',
    ),
    'C10': dict(
        level='exploration', bins=WALKER_NAMES,
        quick=walk_jobs(WALKER_NAMES, 4000, 40), thorough=walk_jobs(WALKER_NAMES, 15000, 60),
        claim='Every generated case is executed twice: in heap storage pre-filled with a generated byte, and in other storage pre-filled with the complement, where from a generated op on the run continues on a copy-constructed instance (in storage filled with a third pattern). The complete callback/action trace and every configuration read back must be identical (digest over all trace events and configurations). Includes automatic activation inside the constructor, scripted and built-in random generators, random roots.',
        note='"Every prior memory content" is sampled by generated fill bytes; addresses differ between the runs by construction. The original of a copy stays alive (using a copy whose original is gone is the known finding F4 for the built-in generator).',
        technique='differential property testing (rapidcheck): same case, different storage contents/addresses/copies',
    ),
    'C11': dict(
        level='exploration', bins=WALKER_NAMES, fuzz=fuzz_jobs(800000), hang_is_violation=True,
        quick=walk_jobs(WALKER_NAMES, 6000, 40), thorough=walk_jobs(WALKER_NAMES, 20000, 60),
        claim='All generated histories (including bursts of requests beyond the queue capacity from outside and from callbacks, task appends beyond capacity, endless substitution) run under ASan+UBSan with the library\'s own assertions routed to a handler: no sanitizer report, no assertion, the configuration stays well-formed after over-capacity bursts.',
        note='Known findings F14 and F23 (assertions reachable through the public API) are tolerated only in the exact situation described in KNOWN_FINDINGS.txt. "Never allocates" is observed through an operator-new counter around library calls on the explored paths.',
        technique='fuzzing-style property testing under sanitizers with live assertions (rapidcheck; libFuzzer in the thorough tier)',
    ),
    'C15': dict(
        level='exploration', custom='c15', bins=[],
        claim='Programs (generic instrumented states; a plan-free program over two structures with and without utility regions, and a program that also appends/clears plans and reports success/failure, on the feature sets with plans) are built under a covering set of 11 feature sets x 2 activation modes, plus bottom-up reaction order groups, (plans, serialization, transition history, structure report, utility theory, interface / verbose logging, type index off, debug state type; payload void/int, substitution limit 4/7, task capacity default/40) and, when development/ does not re-join to the single header byte for byte, under both header flavours; all builds of a group execute the same generated corpus restricted to the common feature subset and must produce identical digests of callbacks, pending counts and configurations; a mismatch is shrunk by dropping op records.',
        note='When development/hfsm2 re-joins (tools/join.py re-implementation) to include/hfsm2/machine.hpp byte for byte, one flavour is built and the evidence says so. Feature sets that do not compile are reported as undecided, not as violations.',
        technique='cross-binary differential testing over a covering array of feature sets and header flavours, seeded corpus, ddmin shrinking',
    ),
    'C16': dict(
        level='exploration', bins=WALKER_NAMES,
        quick=walk_jobs(WALKER_NAMES, 5000, 40), thorough=walk_jobs(WALKER_NAMES, 20000, 60),
        claim='Logger records and callbacks are written to one timeline. With a logger attached every invoked callback must be immediately preceded by its recordMethod record (interface-logging builds: and every record answered by its callback, except the react/query family; verbose build: records for non-overridden methods allowed), every scripted request / cancellation / succeed / fail must be followed by exactly its record with the right ids, select resolutions must report what select() returned, a detached logger must receive nothing; the whole case is re-run with no logger ever attached and must produce the same callbacks, actions and configurations; after every API call structure() has one entry per state in id order (type names compared) with isActive == isActive(id), and activityHistory() is either unchanged or the saturating successor for every state (a churn operation runs 131-138 plain transitions in a row so that the counters reach their limits).',
        note='Anonymous region heads have no name in the report; their entries are only checked for isActive.',
        technique='property-based testing (rapidcheck): record/callback pairing on one timeline + logger on/off differential',
    ),
    'C17': dict(
        level='exploration', custom='c17', bins=[],
        claim='Generated machine structures (320 quick / 1500 thorough, up to 320 states (counts beyond 255), width 12, depth 7, headless and width-1 regions, all root kinds, plus the zoo) are compiled with static_asserts that compare stateId<>(), regionId<>() and every published count (states, regions, composite/orthogonal regions, orthogonal units, prongs, serialization bits, default task capacity) with an independent depth-first numbering; every structure is spelled twice (template states and separately named structs) and both must agree. Run-time half (three zoo machines, generated histories): control.stateId() in every callback equals the declared id, and control.plan() inside update() is plan(<published id of the region the state lives in>).',
        note='The generated input is a program; the oracle is evaluated by the compiler. Trusted: the Python DFS of tools/structgen.py (30 lines, shares nothing with the library\'s type-list arithmetic).',
        technique='generated-program testing: random structures + independently derived static_asserts (compile = evaluate)',
        assumptions=['identifier types are the defaults (Short = uint8_t): structures stay below 128 states'],
    ),
    'C18': dict(
        level='exploration',
        claim='Randomised op sequences on BitArrayT<N> (20 capacities from 1 to 520, so that index types wider than 8 bits are covered; views, static and dynamic indices) and (width,value) sequences on bit streams (5 capacities, 8 start alignments) are compared with vector<bool> / value-list models after every op, under ASan+UBSan with the library assertions live. Exploration only: absence of violations is claimed for the explored cases.',
        note='Trusted: the std::vector<bool> model, clang sanitizers. Views are taken inside the capacity; values fit their width; operator& checked one-directionally.',
        technique='model-based property testing (rapidcheck) of containers against std:: models',
        bins=['units_bits'],
        quick=[dict(bin='units_bits', cases=60000, size=60)],
        thorough=[dict(bin='units_bits', cases=400000, size=s, args=[]) for s in (20, 60, 100, 200)] * 2,
        assumptions=['values written to a stream fit their width (the serializer only writes such values)',
                     'a view owns whole storage units: clear() of a view may also clear the unused bits of its last unit',
                     'operator& is only required not to report an intersection of disjoint sets'],
    ),
    'C19': dict(
        level='exploration',
        claim='Randomised emplace/remove/clear sequences on TaskListT<void|int, N> and append/bulk-append/copy/clear/write sequences on DynamicArrayT / StaticArrayT (10 capacities incl. 255, 256, 257) are compared with std::map / std::vector models after every op, canaries around the object, library verifyStructure() assertions live, ASan+UBSan.',
        note='Trusted: the std:: models. remove() only on live indices. The deliberate break in the full branch of emplace is tolerated here and reported under C11.',
        technique='model-based property testing (rapidcheck) of containers against std:: models',
        bins=['units_pool'],
        quick=[dict(bin='units_pool', cases=40000, size=100)],
        thorough=[dict(bin='units_pool', cases=500000, size=s) for s in (30, 100, 200, 400)] * 2,
        assumptions=['remove() is only called with the index of a live item (the plan code never does otherwise)',
                     'the deliberate HFSM2_BREAK() in the full branch of TaskListT::emplace is tolerated here (recorded under C11 as F21)'],
    ),
    'C20': dict(
        level='exploration',
        claim='All six bundled generators are compared output by output (uint32/uint64/float32/float64, up to 2000 outputs, before and after jump()) with reference splitmix32/64 and xoshiro128/256 +/** implementations anchored by published vectors, for generated seeds, constructed seeds that force the zero-rejection loop, explicit states and the default seed; floats are checked to lie in [0,1); the same harness is built with clang++ and g++ so compiler-dependent evaluation order shows.',
        note='Trusted: the reference implementations (self-tested against published vectors at start-up). Only the 64-bit pointer width of this sandbox is run; the 32-bit variants are instantiated explicitly.',
        technique='differential testing against reference PRNG implementations (rapidcheck), two compilers',
        bins=['units_rng', 'units_rng_gcc'],
        quick=[dict(bin='units_rng', cases=60000, size=100), dict(bin='units_rng_gcc', cases=60000, size=100)],
        thorough=[dict(bin='units_rng', cases=150000, size=100)] * 6 + [dict(bin='units_rng_gcc', cases=150000, size=100)] * 2,
        assumptions=['reference generators are written from the published algorithms and anchored by published vectors (checked at start-up)',
                     'an explicit all-zero 4-word state is the caller\'s error and is not generated',
                     '"every platform": the 64-bit build only, with clang++ and g++'],
    ),
}


def seeded_walkers(seed, k=12):
    """thorough tier: k machine structures drawn from VERIF_SEED (manual activation, default configuration)"""
    import random, structgen
    rng = random.Random(seed * 1000003 + 17)
    out = []
    for i in range(k):
        spec = structgen.random_spec(rng, max_states=34, max_depth=4, max_width=6)
        name = 'rnd_%d_%02d' % (seed, i)
        ZOO[name] = spec
        w = walker(name, 'm' if i % 3 else 'b')
        UNITS[w['name']] = w
        out.append(w)
    return out


def uses_walkers(prop):
    return PROPS[prop].get('bins') is WALKER_NAMES or PROPS[prop].get('bins') == WALKER_NAMES


def specs_for(prop, tier, seed):
    specs = [UNITS[b] for b in PROPS[prop]['bins']]
    if tier == 'thorough' and uses_walkers(prop):
        specs += seeded_walkers(seed)
    return specs


def jobs_for(prop, tier, seed):
    jobs = [dict(j) for j in PROPS[prop].get(tier, [])]
    if tier == 'thorough' and uses_walkers(prop):
        cases = jobs[0]['cases'] if jobs else 10000
        jobs += walk_jobs([w['name'] for w in seeded_walkers(seed)], cases, 60)
    return jobs


NOT_APPLICABLE = {}
