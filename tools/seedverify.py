#!/usr/bin/env python3
"""seedverify.py <id> <src_dir> <PROP> [more props]
Confirms an independently written breaking change: (1) applies <src_dir>/patch.diff to a scratch worktree of /repo HEAD, (2) the upstream
suite passes with it, (3) <src_dir>/demo.cpp fails with it and passes without it, then (4) runs the named checks against it (tools/mutcheck.py).
Copies patch/demo/README to /verif/seeded/<id>/ and writes meta.json."""
import json, os, shutil, subprocess, sys, time
VERIF = os.path.dirname(os.path.dirname(os.path.abspath(__file__)))
sid, src, props = sys.argv[1], sys.argv[2], sys.argv[3:]
wt = '/tmp/seedverify/%s' % sid
os.makedirs('/tmp/seedverify', exist_ok=True)
subprocess.run(['git', '-C', '/repo', 'worktree', 'remove', '--force', wt], stdout=subprocess.DEVNULL, stderr=subprocess.DEVNULL)
subprocess.check_call(['git', '-C', '/repo', 'worktree', 'add', '--detach', '-f', wt, 'HEAD'], stdout=subprocess.DEVNULL, stderr=subprocess.DEVNULL)
meta = dict(id=sid, property=props[0], base_commit=subprocess.check_output(['git', '-C', '/repo', 'rev-parse', '--short', 'HEAD']).decode().strip(), ran=[])
def demo(label):
    exe = os.path.join(wt, '_demo')
    r = subprocess.run(['clang++', '-std=c++14', '-I', os.path.join(wt, 'include'), os.path.join(src, 'demo.cpp'), '-o', exe], stdout=subprocess.PIPE, stderr=subprocess.STDOUT, text=True)
    if r.returncode:
        return 'does not compile: ' + r.stdout[-400:]
    try:
        r = subprocess.run([exe], stdout=subprocess.PIPE, stderr=subprocess.STDOUT, text=True, timeout=120)
        rc = r.returncode
    except subprocess.TimeoutExpired:
        rc = 'timeout'
    os.unlink(exe)
    return 'exit %s' % rc
try:
    meta['demo_without_change'] = demo('without')
    subprocess.check_call(['git', '-C', wt, 'apply', os.path.join(src, 'patch.diff')])
    meta['demo_with_change'] = demo('with')
    t0 = time.time()
    r = subprocess.run([sys.executable, '/tmp/seedtools/runtests.py', wt], stdout=subprocess.PIPE, stderr=subprocess.STDOUT, text=True)
    meta['upstream_suite_with_change'] = 'pass' if r.returncode == 0 and 'Status: SUCCESS' in r.stdout else 'FAIL: ' + r.stdout[-300:]
    shutil.rmtree(os.path.join(wt, '_fasttest'), ignore_errors=True)
finally:
    subprocess.run(['git', '-C', '/repo', 'worktree', 'remove', '--force', wt], stdout=subprocess.DEVNULL, stderr=subprocess.DEVNULL)
ok = meta['demo_without_change'] == 'exit 0' and meta['demo_with_change'] not in ('exit 0',) and not meta['demo_with_change'].startswith('does not') and meta['upstream_suite_with_change'] == 'pass'
meta['confirmed'] = ok
print(json.dumps(meta, indent=1))
dst = os.path.join(VERIF, 'seeded', sid)
os.makedirs(dst, exist_ok=True)
for f in ('patch.diff', 'demo.cpp', 'README.md'):
    if os.path.exists(os.path.join(src, f)):
        shutil.copyfile(os.path.join(src, f), os.path.join(dst, f))
if ok:
    r = subprocess.run([sys.executable, os.path.join(VERIF, 'tools/mutcheck.py'), 'seed_' + sid, os.path.join(dst, 'patch.diff')] + props, stdout=subprocess.PIPE, stderr=subprocess.STDOUT, text=True)
    print(r.stdout)
    meta['checks'] = [l.split(None, 4)[1:4] + [l.split(None, 4)[4] if len(l.split(None, 4)) > 4 else ''] for l in r.stdout.splitlines() if l.startswith('seed_')]
    meta['ran'] = ['tools/seedverify.py %s %s %s' % (sid, src, ' '.join(props))]
json.dump(meta, open(os.path.join(dst, 'meta.json'), 'w'), indent=1)
