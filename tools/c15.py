#!/usr/bin/env python3
"""C15 — optional features and header flavour never change unrelated behaviour: cross-binary differential."""
import os, random, subprocess, sys, time, hashlib
from concurrent.futures import ThreadPoolExecutor
sys.path.insert(0, os.path.dirname(os.path.abspath(__file__)))

S1 = ('zf_plain', 'C[C[..R[...]]O[S[..]C[..].]c[..]]')          # no utility regions: comparable across every feature set
S2 = ('zf_utility', 'C[U[...]N[..]O[U[..].]R[..]]')             # utility regions: compared among builds with utility theory
S3 = ('zf_plans', 'C[C[..R[...]]O[S[..]C[..].]c[..]]')          # the program also edits plans and reports success/failure: compared among builds with plans

ALL = ['HFSM2_ENABLE_PLANS', 'HFSM2_ENABLE_SERIALIZATION', 'HFSM2_ENABLE_TRANSITION_HISTORY', 'HFSM2_ENABLE_STRUCTURE_REPORT', 'HFSM2_ENABLE_UTILITY_THEORY', 'HFSM2_ENABLE_DEBUG_STATE_TYPE']
# a pairwise-style covering set over {plans, serialization, history, structure report, utility, log interface, verbose log, typeindex off,
# debug state type} x {payload void/int, substitution limit 4/7, task capacity default/+8, activation}
CONFIGS = [
    ('none', []),
    ('all_verbose', ALL + ['HFSM2_ENABLE_VERBOSE_DEBUG_LOG']),
    ('plans', ['HFSM2_ENABLE_PLANS', 'HVF_TASKCAP=40']),
    ('serial_history', ['HFSM2_ENABLE_SERIALIZATION', 'HFSM2_ENABLE_TRANSITION_HISTORY', 'HVF_SUBST=7']),
    ('report_log', ['HFSM2_ENABLE_STRUCTURE_REPORT', 'HFSM2_ENABLE_LOG_INTERFACE']),
    ('utility_plans_payload', ['HFSM2_ENABLE_UTILITY_THEORY', 'HFSM2_ENABLE_PLANS', 'HVF_PAYLOAD']),
    ('history_log_notypeindex', ['HFSM2_ENABLE_TRANSITION_HISTORY', 'HFSM2_ENABLE_LOG_INTERFACE', 'HFSM2_DISABLE_TYPEINDEX', 'HVF_SUBST=7']),
    # (serialization + structure report without transition history does not compile under manual activation: upstream declares
    #  'using Base::udpateActivity' only inside #if HFSM2_TRANSITION_HISTORY_AVAILABLE() - outside the property's quantifier)
    ('plans_serial_debug', ['HFSM2_ENABLE_PLANS', 'HFSM2_ENABLE_SERIALIZATION', 'HFSM2_ENABLE_DEBUG_STATE_TYPE', 'HVF_TASKCAP=48']),
    ('report_history_plans_serial', ['HFSM2_ENABLE_STRUCTURE_REPORT', 'HFSM2_ENABLE_TRANSITION_HISTORY', 'HFSM2_ENABLE_PLANS', 'HFSM2_ENABLE_SERIALIZATION']),
    ('all_payload_subst7', ALL + ['HFSM2_ENABLE_LOG_INTERFACE', 'HVF_PAYLOAD', 'HVF_SUBST=7']),
    ('utility_serial_verbose', ['HFSM2_ENABLE_UTILITY_THEORY', 'HFSM2_ENABLE_SERIALIZATION', 'HFSM2_ENABLE_VERBOSE_DEBUG_LOG']),
]


BOTTOMUP_CONFIGS = ('none', 'plans', 'serial_history', 'report_log', 'all_payload_subst7', 'utility_serial_verbose')   # bottom-up reaction order: its own groups


def specs(flavours):
    out = []
    for name, defs in CONFIGS:
        if name in BOTTOMUP_CONFIGS:
            for mname, mspec in (S1, S3):
                if mname == 'zf_plans' and 'HFSM2_ENABLE_PLANS' not in defs:
                    continue
                d = list(defs) + ['HV_MACHINE_HEADER="%s.hpp"' % mname, 'HVF_MANUAL', 'HVF_BOTTOMUP'] + (['HVF_USE_PLANS'] if mname == 'zf_plans' else [])
                out.append(dict(name='feat_%s_%s_mb' % (mname, name), source='harness/hv_feat.cpp', defines=d, machine=(mname, mspec), sanitize=False, link=[], group=(mname, 'mb')))
    for act in ('m', 'a'):
        for name, defs in CONFIGS:
            for mname, mspec in (S1, S2, S3):
                if mname == 'zf_utility' and 'HFSM2_ENABLE_UTILITY_THEORY' not in defs:
                    continue
                if mname == 'zf_plans' and 'HFSM2_ENABLE_PLANS' not in defs:
                    continue
                if act == 'a' and name not in ('none', 'all_verbose', 'all_payload_subst7', 'utility_serial_verbose'):
                    continue
                d = list(defs) + ['HV_MACHINE_HEADER="%s.hpp"' % mname] + (['HVF_MANUAL'] if act == 'm' else []) + (['HVF_USE_PLANS'] if mname == 'zf_plans' else [])
                out.append(dict(name='feat_%s_%s_%s' % (mname, name, act), source='harness/hv_feat.cpp', defines=d, machine=(mname, mspec), sanitize=False, link=[], group=(mname, act)))
    return out


def _plan_scenario(rng):
    """three records for the plan group: a cyclic task X->X, a second task with the same origin, then an update in which X succeeds
    (X is on the initially active path of the structure S3)"""
    import structgen
    nodes = structgen.number(structgen.parse(S3[1]))
    active = [0]
    while nodes[active[-1]].kind != 'L':
        active.append(nodes[active[-1]].subs[0].id)
    heads = [n for n in nodes if n.kind != 'L' and n.id in active]
    head = rng.choice(heads)
    size = sum(1 for n in nodes if _inside(nodes, n.id, head.id))
    xs = [a for a in active if a != head.id and _inside(nodes, a, head.id)]
    x = rng.choice(xs)
    r2 = (x - head.id - 1) + (size - 1) * rng.randrange(0, max(1, (255 - (x - head.id - 1)) // (size - 1)))
    def rec(kind, a1, a2, a3, scripts=()):
        r = bytearray([kind, a1, a2 & 255, a3, rng.randrange(256)])
        for k in range(3):
            r += bytes(scripts[k]) if k < len(scripts) else bytes([0, 0, 0])
        return bytes(r + bytes(16 - len(r)))
    succeed = (x, 2 | (4 << 3), 0)     # state X, method update, action 4 (succeed), type 0
    return rec(6, head.region, r2, 1 | (rng.randrange(3) << 6)) + rec(6, head.region, r2, 2 | (rng.randrange(64) << 2)) + rec(0, 0, 0, 0, [succeed])


def _inside(nodes, s, head):
    while s >= 0:
        if s == head:
            return True
        s = nodes[s].parent
    return False


def gen_case(rng):
    n = rng.choice([1, 2, 3, 4, 6, 8, 12])
    b = bytearray()
    if rng.random() < 0.15:
        b += _plan_scenario(rng)
    for _ in range(n):
        kind = rng.choice([0, 0, 0, 1, 2, 2, 3, 3, 3, 4, 5, 6, 6, 6, 7])   # 6/7: plan append / clear in the plan group, update / react elsewhere
        rec = bytearray([kind, rng.randrange(256), rng.randrange(256), rng.randrange(256), rng.randrange(256)])
        for _k in range(3):
            if rng.random() < 0.5:
                rec += bytes([rng.randrange(256), (rng.choice([0, 0, 1, 1, 2, 3, 4, 5]) | (rng.choice([1, 2, 2, 3, 3, 6, 4, 4]) << 3)), rng.randrange(256)])
            else:
                rec += bytes([0, 0, 0])
        rec += bytes(16 - len(rec))
        b += rec
    return bytes(b)


def run_bin(path, corpus, out):
    r = subprocess.run([path, '--exec', corpus, '--out', out], stdout=subprocess.PIPE, stderr=subprocess.STDOUT, text=True, timeout=1800)
    if r.returncode != 0:
        return None
    return [l.split() for l in open(out).read().splitlines()]


def one_digest(path, case, tmp):
    open(tmp, 'wb').write(len(case).to_bytes(2, 'little') + case)
    d = run_bin(path, tmp, tmp + '.out')
    return d[0][0] if d else None


def shrink(ref, other, case, tmp):
    recs = [case[i:i + 16] for i in range(0, len(case), 16)]
    changed = True
    while changed and len(recs) > 1:
        changed = False
        for i in range(len(recs)):
            cand = recs[:i] + recs[i + 1:]
            c = b''.join(cand)
            if one_digest(ref, c, tmp) != one_digest(other, c, tmp):
                recs = cand; changed = True; break
    return b''.join(recs)


def run(tier, seed, repo, build, out, flavours, zoo, builder=None):
    import check
    t0 = time.time()
    sp = specs(flavours)
    bins = check.build_all(sp, flavours)
    n = 250000 if tier == "quick" else 2500000
    rng = random.Random(seed * 104729 + 7)
    cases = [gen_case(rng) for _ in range(n)]
    rundir = os.path.join(build, 'run', 'c15-%d' % os.getpid())
    os.makedirs(rundir, exist_ok=True)
    corpus = os.path.join(rundir, 'corpus.bin')
    with open(corpus, 'wb') as f:
        for c in cases:
            f.write(len(c).to_bytes(2, 'little') + c)
    jobs = [(s, fl, bins[(s['name'], fl)]) for s in sp for fl in flavours if bins.get((s['name'], fl))]
    with ThreadPoolExecutor(max_workers=os.cpu_count() or 4) as ex:
        results = list(ex.map(lambda j: run_bin(j[2], corpus, os.path.join(rundir, '%s-%s.out' % (j[0]['name'], j[1]))), jobs))
    violations, undecided = [], []
    groups = {}
    for (s, fl, path), res in zip(jobs, results):
        if res is None or len(res) != n:
            undecided.append((s['name'], 'executor failed or produced %s digests' % (len(res) if res else None)))
            continue
        groups.setdefault(s['group'], []).append((s, fl, path, res))
    nontrivial = set()
    compared = 0
    for g, members in groups.items():
        ref = members[0]
        for i, row in enumerate(ref[3]):
            if (int(row[1]) & 3) == 3:
                nontrivial.add((g[0], hashlib.sha1(cases[i]).hexdigest()))
        for m in members[1:]:
            compared += 1
            for i in range(n):
                if m[3][i][0] != ref[3][i][0]:
                    tmp = os.path.join(rundir, 'shrink.bin')
                    small = shrink(ref[2], m[2], cases[i], tmp)
                    os.makedirs(os.path.join(out, 'replays'), exist_ok=True)
                    rp = os.path.join(out, 'replays', 'C15-%s-%s-vs-%s-%s.case' % (m[0]['name'], m[1], ref[0]['name'], ref[1]))
                    open(rp, 'wb').write(small)
                    a = subprocess.run([ref[2], '--replay', rp], stdout=subprocess.PIPE, text=True).stdout
                    b = subprocess.run([m[2], '--replay', rp], stdout=subprocess.PIPE, text=True).stdout
                    diff = [(x, y) for x, y in zip(a.splitlines(), b.splitlines()) if x != y][:2]
                    violations.append(dict(replay=rp, message='%s (%s) and %s (%s) behave differently on the same case: %s' % (ref[0]['name'], ref[1], m[0]['name'], m[1], diff)))
                    break
    for f in os.listdir(rundir):
        os.unlink(os.path.join(rundir, f))
    os.rmdir(rundir)
    cov = dict(evaluations=n * len(jobs), distinct_nontrivial=len(nontrivial),
               rule='case = 1..12 op records (update, react, queued/immediate change/restart/resume/select/schedule, reset; in the plan group also plan append (cyclic / in-region / anywhere, change/restart/resume) and plan clear) with up to 3 scripted callbacks (guards cancel and/or substitute, update/react phases request, react consumes; in the plan group the update phases also succeed/fail), '
                    'generated from VERIF_SEED; every build in a group (same structure, same activation mode) executes the same corpus and prints a digest of all callbacks, pending counts seen by guards and isActive/isResumable of every state after every op; '
                    'digests must be equal. non-trivial = the configuration changed and a callback issued a request; distinct = distinct case bytes per structure.',
               samples=[c.hex() for c in cases[:3]], classes=dict(cases=n, binaries=len(jobs), pairs_compared=compared, groups=len(groups)),
               configs=[s['name'] for s in sp], flavours=flavours, flavours_textually_identical=(flavours == ['single']))
    return cov, violations, undecided, time.time() - t0


def replay(path, repo, flavours):
    import check
    sp = specs(flavours)
    bins = check.build_all(sp, flavours)
    base = os.path.basename(path)
    outs = {}
    for (name, fl), p in bins.items():
        if p and (name in base):
            outs[(name, fl)] = subprocess.run([p, '--replay', path], stdout=subprocess.PIPE, text=True).stdout
    vals = list(outs.values())
    for k, v in outs.items():
        print('== %s (%s)\n%s' % (k[0], k[1], v))
    ok = len(set(v.splitlines()[-1] for v in vals if v)) <= 1
    print('REPLAY-PASS' if ok else 'REPLAY-FAIL C15 the builds named in the replay file disagree on this case')
    return ok
