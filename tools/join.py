#!/usr/bin/env python3
"""Re-implementation of /repo/tools/join.py that writes wherever asked (never into /repo unless told).
usage: join.py <repo> <out>   -> joins <repo>/development/hfsm2/machine_dev.hpp into <out>
       join.py <repo> --check -> exit 0 if identical to <repo>/include/hfsm2/machine.hpp, 3 otherwise"""
import re, sys, io, os

commentRE = re.compile(r"(?:\s*\/\/ COMMON)|(?:\s*\/\/ SPECIFIC)|(?:\s*\/\/\/\/)|(?:\s*\/\/--)|(?:\s*\/\/ -)")

def merge(path, folder, lastLineEmpty, included, output):
    pathTokens = path.split("/")
    current = folder + "/" + pathTokens[-1]
    with open(current, 'r', encoding='utf-8') as inp:
        if not lastLineEmpty:
            output.write("\n")
            lastLineEmpty = True
        for line in inp:
            hashIndex = line.find('#include "')
            if hashIndex != -1:
                nxt = line[hashIndex + 10: -2]
                if nxt not in included:
                    nextTokens = nxt.split("/")
                    included.append(nextTokens[-1])
                    if len(nextTokens) == 1:
                        lastLineEmpty = merge(nxt, folder, lastLineEmpty, included, output)
                    else:
                        name = nextTokens.pop()
                        subFolder = folder + "/" + "/".join(nextTokens)
                        lastLineEmpty = merge(name, subFolder, lastLineEmpty, included, output)
            else:
                if line.startswith('﻿'):
                    line = line[1:]
                if commentRE.match(line):
                    continue
                if line == "\n":
                    if lastLineEmpty:
                        continue
                    lastLineEmpty = True
                else:
                    lastLineEmpty = False
                output.write(line)
    return lastLineEmpty

def joined(repo):
    out = io.StringIO()
    merge("machine_dev.hpp", os.path.join(repo, "development/hfsm2"), True, [], out)
    return ('﻿' + out.getvalue()).encode('utf-8')

if __name__ == "__main__":
    repo = sys.argv[1]
    data = joined(repo)
    if sys.argv[2] == "--check":
        cur = open(os.path.join(repo, "include/hfsm2/machine.hpp"), "rb").read()
        sys.exit(0 if cur == data else 3)
    with open(sys.argv[2], "wb") as f:
        f.write(data)
