#!/usr/bin/env python3
"""Regenerates MANIFEST.json from tools/props.py (claimed checks) and the NOT_APPLICABLE table."""
import json, os, sys
VERIF = os.path.dirname(os.path.dirname(os.path.abspath(__file__)))
sys.path.insert(0, os.path.join(VERIF, 'tools'))
import props

ALL = ['C%02d' % i for i in range(1, 21)]
hooks_commits = [l.split()[0] for l in os.popen("git -C /repo log --format='%h %s' 8d6d80f..HEAD").read().splitlines() if ' verif hook' in l]
checks = []
for pid in ALL:
    if pid not in props.PROPS:
        continue
    p = props.PROPS[pid]
    checks.append(dict(
        property_id=pid,
        quick_cmd='python3 tools/check.py %s --tier quick' % pid,
        thorough_cmd='python3 tools/check.py %s --tier thorough' % pid,
        evidence_file='/verif/evidence/%s.json' % pid,
        replay_cmd_template='python3 tools/check.py %s --replay {path}' % pid,
        engine=p.get('engine', 'rapidcheck'),
        level_claimed=dict(category=p.get('level', 'exploration'), text=p['claim'], design_ref=p.get('design_ref', 'DESIGN.md section 4, ' + pid)),
        level_note=p['note'],
        technique=p['technique'],
    ))
na = [dict(property_id=pid, reason=props.NOT_APPLICABLE.get(pid, 'no check registered yet in this revision of the machinery (work in progress, see DESIGN.md)')) for pid in ALL if pid not in props.PROPS]
m = dict(
    version=1,
    setup_cmd='python3 tools/check.py --setup',
    hooks=dict(guard='HFSM2_VERIF', enable='clang++ -DHFSM2_VERIF -DHFSM2_ENABLE_ASSERT (set by tools/check.py for every harness build)',
               baseline_off_cmd='cmake --build /repo/_build && ctest --test-dir /repo/_build -j8 --timeout 900',
               source_commits=hooks_commits, add_only=True),
    engines=[dict(name='rapidcheck', path='/usr/include/rapidcheck.h', serves_properties=[c['property_id'] for c in checks], kind_free_text='property-based testing library (generators, shrinking); configured through RC_PARAMS by tools/check.py'),
             dict(name='libFuzzer', path='clang++ -fsanitize=fuzzer', serves_properties=[pid for pid in ALL if pid in props.PROPS and props.PROPS[pid].get('fuzz')], kind_free_text='coverage-guided campaigns over the same byte format and oracles (thorough tier)')],
    checks=checks,
    notes='All checks are generated-input searches against explicit oracles (reference models, round-trips, differentials, invariants). tools/check.py rebuilds every harness from /repo\'s working tree (content-hash cache under build/). KNOWN_FINDINGS.txt lists recorded and fixed defects.',
    not_applicable=na,
)
json.dump(m, open(os.path.join(VERIF, 'MANIFEST.json'), 'w'), indent=1)
print('MANIFEST.json: %d checks, %d not claimed' % (len(checks), len(na)))
