// C18 — bit arrays and bit streams against std::vector<bool> / value-list models.
#define HFSM2_ENABLE_SERIALIZATION
#define HFSM2_ENABLE_ASSERT
#include <hfsm2/machine.hpp>
#include "hv_common.hpp"
#include <sstream>

using hfsm2::Short;
using hfsm2::Long;
using hfsm2::detail::BitArrayT;
using hfsm2::detail::Units;

namespace {

static const unsigned CAPS[20] = {1, 2, 7, 8, 9, 15, 16, 17, 31, 32, 33, 63, 64, 65, 100, 255, 256, 257, 300, 520};
static const unsigned SCAPS[5] = {8, 33, 64, 129, 1000};

struct Op { uint8_t k, a, b, c; };
enum { A_SET, A_CLEAR, A_GET, A_SETALL, A_CLEARALL, A_EMPTY, B_SET, B_CLEAR, A_ANDEQ, A_NE, A_AND, V_SET, V_CLEAR1, V_CLEAR, V_BOOL, V_GET,
	   S_SET, S_CLEAR, S_GET, SV_OPS, A_SWAP, B_SETALL, A_COPYB, A_OPS_COUNT };
static const char* OPN[] = {"set", "clear", "get", "setAll", "clearAll", "empty", "B.set", "B.clear", "A&=B", "A!=B", "A&B", "view.set", "view.clear(i)", "view.clear()", "view.bool", "view.get",
	   "set<I>", "clear<I>", "get<I>", "staticView", "swapAB", "B.setAll", "A=B"};

//------------------------------------------------------------------------------
// static-index dispatch

// (static indices are template parameters of type Short: only indices below 256 can be spelled)
template <unsigned N, unsigned I, bool = (I < N && I < 256)>
struct StaticIdx {
	static void set  (BitArrayT<N>& a, unsigned i) { if (i == I) a.template set<I>();   else StaticIdx<N, I + 1>::set(a, i); }
	static void clear(BitArrayT<N>& a, unsigned i) { if (i == I) a.template clear<I>(); else StaticIdx<N, I + 1>::clear(a, i); }
	static bool get  (const BitArrayT<N>& a, unsigned i) { return i == I ? a.template get<I>() : StaticIdx<N, I + 1>::get(a, i); }
};
template <unsigned N, unsigned I>
struct StaticIdx<N, I, false> {
	static void set  (BitArrayT<N>&, unsigned) {}
	static void clear(BitArrayT<N>&, unsigned) {}
	static bool get  (const BitArrayT<N>&, unsigned) { return false; }
};

// static view at <UNIT, W>: set<I>/get<I>/clear<I> for I < W (W <= 8 here)
template <unsigned N, Short UNIT, Short W, Short I, bool = (I < W)>
struct StaticView {
	static void run(BitArrayT<N>& a, std::vector<bool>& m, unsigned what, unsigned i, std::string& err) {
		if (i == I) {
			auto v = a.template bits<UNIT, W>();
			const size_t bit = UNIT * 8 + I;
			if (what == 0) { v.template set<I>(); m[bit] = true; }
			else if (what == 1) { v.template clear<I>(); m[bit] = false; }
			else if (v.template get<I>() != m[bit]) err = "static view get<I> wrong";
		} else StaticView<N, UNIT, W, I + 1>::run(a, m, what, i, err);
	}
};
template <unsigned N, Short UNIT, Short W, Short I>
struct StaticView<N, UNIT, W, I, false> { static void run(BitArrayT<N>&, std::vector<bool>&, unsigned, unsigned, std::string&) {} };

//------------------------------------------------------------------------------

template <unsigned N>
std::string runArray(const std::vector<Op>& ops, hv::Stats& st, bool& nontrivial) {
	using BA = BitArrayT<N>;
	constexpr unsigned UC = BA::UNIT_COUNT;
	BA a, b;
	std::vector<bool> ma(N, false), mb(N, false);
	std::set<unsigned> unitsTouched;
	char buf[200];
	auto fail = [&](size_t i, const char* what) { std::snprintf(buf, sizeof buf, "C18 BitArrayT<%u> op#%zu %s: %s", N, i, OPN[ops[i].k % A_OPS_COUNT], what); return std::string(buf); };
	if (!a.empty() || !b.empty()) return "C18 fresh BitArrayT is not empty";
	for (size_t i = 0; i < ops.size(); ++i) {
		const Op& o = ops[i];
		const unsigned idx = (o.a | (o.b << 8)) % N;
		switch (o.k % A_OPS_COUNT) {
		case A_SET:    a.set(idx);   ma[idx] = true;  unitsTouched.insert(idx / 8); break;
		case A_CLEAR:  a.clear(idx); ma[idx] = false; unitsTouched.insert(idx / 8); break;
		case A_GET:    if (a.get(idx) != ma[idx]) return fail(i, "get() differs from model"); break;
		case A_SETALL: a.set(); ma.assign(N, true); break;
		case B_SETALL: b.set(); mb.assign(N, true); break;
		case A_CLEARALL: a.clear(); ma.assign(N, false); break;
		case A_EMPTY: break; // checked after every op
		case B_SET:   b.set(idx);   mb[idx] = true;  break;
		case B_CLEAR: b.clear(idx); mb[idx] = false; break;
		case A_ANDEQ: a &= b; for (unsigned j = 0; j < N; ++j) ma[j] = ma[j] && mb[j]; break;
		case A_COPYB: a = b; ma = mb; break;
		case A_NE: break;  // checked after every op
		case A_AND: {
			// operator& as implemented answers 'every storage unit intersects'; only the unambiguous direction is demanded
			bool any = false; for (unsigned j = 0; j < N; ++j) any = any || (ma[j] && mb[j]);
			if ((a & b) && !any) return fail(i, "A & B true although the sets are disjoint");
			break; }
		case A_SWAP: { BA t = a; a = b; b = t; ma.swap(mb); break; }
		case V_SET: case V_CLEAR1: case V_CLEAR: case V_BOOL: case V_GET: {
			// view = whole units [unit, unit+ceil(width/8)), addressed range [unit*8, unit*8+width) kept inside the capacity
			const unsigned unit = o.a % UC;
			const unsigned maxW = std::min<unsigned>(N - unit * 8, 255); // Units::width is a Short
			const unsigned width = 1 + o.b % maxW;
			const unsigned vi = o.c % width;
			const unsigned base = unit * 8;
			auto v = a.bits(Units{(Short) unit, (Short) width});
			auto cv = const_cast<const BA&>(a).cbits(Units{(Short) unit, (Short) width});
			unitsTouched.insert(unit);
			if (width % 8 == 0) st.cls("view_width_multiple_of_8");
			switch (o.k % A_OPS_COUNT) {
			case V_SET:    v.set(vi);   ma[base + vi] = true;  break;
			case V_CLEAR1: v.clear(vi); ma[base + vi] = false; break;
			case V_GET:    if (v.get(vi) != ma[base + vi] || cv.get(vi) != ma[base + vi]) return fail(i, "view get differs from model"); break;
			case V_BOOL: {
				bool any = false; for (unsigned j = 0; j < width; ++j) any = any || ma[base + j];
				if ((bool) v != any || (bool) cv != any) return fail(i, "view emptiness differs from its range");
				break; }
			case V_CLEAR: {
				v.clear();
				const unsigned endUnits = std::min<unsigned>(N, (unit + (width + 7) / 8) * 8);
				for (unsigned j = base; j < base + width; ++j) ma[j] = false;
				// bits of the view's last unit beyond its width belong to the view's storage: either outcome accepted
				for (unsigned j = base + width; j < endUnits; ++j) ma[j] = a.get(j);
				break; }
			}
			break; }
		case S_SET:   if (idx < N && idx < 256) { StaticIdx<N, 0>::set(a, idx);   ma[idx] = true;  } break;
		case S_CLEAR: if (idx < N && idx < 256) { StaticIdx<N, 0>::clear(a, idx); ma[idx] = false; } break;
		case S_GET:   if (idx < 256 && StaticIdx<N, 0>::get(a, idx) != ma[idx]) return fail(i, "get<I>() differs from model"); break;
		case SV_OPS: {
			std::string err;
			constexpr Short W0 = N < 8 ? N : 8;
			constexpr Short LU = UC - 1;
			constexpr Short WL = N - LU * 8;
			if (o.a & 1) StaticView<N, 0, W0, 0>::run(a, ma, o.b % 3, o.c % W0, err);
			else         StaticView<N, LU, WL, 0>::run(a, ma, o.b % 3, o.c % WL, err);
			if (!err.empty()) return fail(i, err.c_str());
			break; }
		}
		// whole-state comparison after every op: nothing but the addressed index may have changed
		bool anyA = false, diff = false;
		for (unsigned j = 0; j < N; ++j) {
			if (a.get(j) != ma[j]) { std::snprintf(buf, sizeof buf, "index %u is %d, model says %d", j, (int) a.get(j), (int) ma[j]); return fail(i, buf); }
			if (b.get(j) != mb[j]) { std::snprintf(buf, sizeof buf, "B index %u is %d, model says %d", j, (int) b.get(j), (int) mb[j]); return fail(i, buf); }
			anyA = anyA || ma[j]; diff = diff || (ma[j] != mb[j]);
		}
		if (a.empty() != !anyA) return fail(i, "empty() disagrees with the set of indices");
		if ((a != b) != diff) return fail(i, "operator!= disagrees with set comparison");
	}
	nontrivial = unitsTouched.size() >= 2;
	return "";
}

template <unsigned... NS>
std::string dispatchArray(unsigned sel, const std::vector<Op>& ops, hv::Stats& st, bool& nt) {
	std::string r; unsigned i = 0;
	using F = std::string (*)(const std::vector<Op>&, hv::Stats&, bool&);
	static const F table[] = { &runArray<NS>... };
	(void) i;
	return table[sel % (sizeof...(NS))](ops, st, nt);
}

//------------------------------------------------------------------------------
// streams

template <Long CAP, Short W>
struct RW {
	static void write(hfsm2::detail::BitWriteStreamT<CAP>& s, uint32_t v) { s.template write<W>((hfsm2::UBitWidth<W>) v); }
	static uint32_t read(hfsm2::detail::BitReadStreamT<CAP>& s) { return (uint32_t) s.template read<W>(); }
};
template <Long CAP, Short W = 32>
struct RWTable {
	static void write(hfsm2::detail::BitWriteStreamT<CAP>& s, unsigned w, uint32_t v) { if (w == W) RW<CAP, W>::write(s, v); else RWTable<CAP, W - 1>::write(s, w, v); }
	static uint32_t read(hfsm2::detail::BitReadStreamT<CAP>& s, unsigned w) { return w == W ? RW<CAP, W>::read(s) : RWTable<CAP, W - 1>::read(s, w); }
};
template <Long CAP>
struct RWTable<CAP, 0> {
	static void write(hfsm2::detail::BitWriteStreamT<CAP>&, unsigned, uint32_t) {}
	static uint32_t read(hfsm2::detail::BitReadStreamT<CAP>&, unsigned) { return 0; }
};

template <Long CAP>
std::string runStream(unsigned start, const std::vector<Op>& ops, const hv::Bytes& raw, hv::Stats& st, bool& nontrivial) {
	using Buf = hfsm2::detail::StreamBufferT<CAP>;
	struct Guarded { uint8_t pre[16]; Buf buf; uint8_t post[16]; };
	Guarded g, g2;
	std::memset(g.pre, 0xA5, 16); std::memset(g.post, 0x5A, 16); g2 = g;
	// dirty the buffers first: the write stream's constructor must clear them
	std::memset(g.buf.data(), 0xFF, Buf::BYTE_COUNT); std::memset(g2.buf.data(), 0x33, Buf::BYTE_COUNT);
	start %= 8; if (start >= CAP) start = 0;
	char buf[200];
	std::vector<std::pair<unsigned, uint32_t>> vals;
	{
		hfsm2::detail::BitWriteStreamT<CAP> w{g.buf, (Long) start}, w2{g2.buf, (Long) start};
		Long cur = start;
		for (const Op& o : ops) {
			const unsigned width = 1 + o.k % 32;
			if (cur + width > CAP) break;
			uint32_t v = (uint32_t) o.a | ((uint32_t) o.b << 8) | ((uint32_t) o.c << 16) | ((uint32_t) (o.a ^ o.c) << 24);
			if (o.b & 0x80) v = ~v;                       // dense values
			if ((o.c & 0xC0) == 0xC0) v = 0xFFFFFFFFu;    // all ones
			if (width < 32) v &= (1u << width) - 1;        // precondition: the value fits its width
			RWTable<CAP>::write(w, width, v); RWTable<CAP>::write(w2, width, v);
			cur += width;
			if (w.cursor() != cur) { std::snprintf(buf, sizeof buf, "C18 stream<%u> write cursor %u, expected %u", (unsigned) CAP, (unsigned) w.cursor(), (unsigned) cur); return buf; }
			vals.push_back({width, v});
		}
	}
	for (int i = 0; i < 16; ++i) if (g.pre[i] != 0xA5 || g.post[i] != 0x5A) return "C18 stream wrote outside its buffer";
	for (unsigned bit = 0; bit < start; ++bit) if (g.buf.data()[0] & (1u << bit)) return "C18 stream wrote before its start cursor";
	{
		hfsm2::detail::BitReadStreamT<CAP> r{g.buf, (Long) start};
		Long cur = start; size_t n = 0;
		for (auto& wv : vals) {
			const uint32_t got = RWTable<CAP>::read(r, wv.first);
			cur += wv.first;
			if (got != wv.second) { std::snprintf(buf, sizeof buf, "C18 stream<%u> start %u: value #%zu width %u wrote 0x%x read 0x%x", (unsigned) CAP, start, n, wv.first, wv.second, got); return buf; }
			if (r.cursor() != cur) return "C18 stream read cursor differs from the sum of widths";
			++n;
		}
	}
	// bits after the last written value stay zero (write streams start from a cleared buffer)
	{
		Long end = start; for (auto& wv : vals) end += wv.first;
		for (Long bit = end; bit < Buf::BYTE_COUNT * 8; ++bit) if (g.buf.data()[bit >> 3] & (1u << (bit & 7))) return "C18 stream left garbage after the last value";
	}
	// buffer comparison is equality of contents
	const bool same = std::memcmp(g.buf.data(), g2.buf.data(), Buf::BYTE_COUNT) == 0;
	if (!same) return "C18 identical write sequences gave different buffers";
	if (!(g.buf == g2.buf) || (g.buf != g2.buf)) return "C18 buffer == / != wrong on equal buffers";
	if (!raw.empty()) {
		const unsigned at = raw[raw.size() / 2] % Buf::BYTE_COUNT, bit = raw[0] % 8;
		g2.buf.data()[at] ^= (uint8_t) (1u << bit);
		if ((g.buf == g2.buf) || !(g.buf != g2.buf)) return "C18 buffer == / != wrong on buffers differing in one bit";
	}
	bool crosses = false; { Long cur = start; for (auto& wv : vals) { if ((cur >> 3) != ((cur + wv.first - 1) >> 3)) crosses = true; cur += wv.first; } }
	nontrivial = vals.size() >= 2 && crosses;
	if (crosses) st.cls("stream_value_crossing_byte");
	if (start) st.cls("stream_unaligned_start");
	st.cls("stream_values", vals.size());
	return "";
}

std::vector<Op> decodeOps(hv::Reader& r) {
	std::vector<Op> ops;
	while (r.more()) { Op o; o.k = r.u8(); o.a = r.u8(); o.b = r.u8(); o.c = r.u8(); ops.push_back(o); }
	return ops;
}

} // namespace

static std::string hv_render(const hv::Bytes& c);

static void hv_init(hv::Stats& st) {
	st.rule = "case = (mode, capacity selector, op list). Array mode: ops on BitArrayT<N>, N in {1,2,7,8,9,15,16,17,31,32,33,63,64,65,100,255}, all valid indices compared with a "
			  "vector<bool> model after every op; non-trivial = ops addressed >= 2 different storage units. Stream mode: (width 1..32, value) pairs written from start bit 0..7 into "
			  "buffers of {8,33,64,129,1000} bits and read back; non-trivial = >= 2 values and >= 1 value crossing a byte boundary. distinct = FNV-1a of the case bytes.";
}

static std::string hv_run(const hv::Bytes& c, hv::Stats& st) {
	++st.evaluations;
	hv::Reader r(c);
	const uint8_t mode = r.u8() % 2, sel = r.u8(), start = r.u8();
	std::vector<Op> ops = decodeOps(r);
	bool nt = false; std::string v;
	if (mode == 0) {
		v = dispatchArray<1, 2, 7, 8, 9, 15, 16, 17, 31, 32, 33, 63, 64, 65, 100, 255, 256, 257, 300, 520>(sel, ops, st, nt);
		st.cls("array_cases"); st.cls(std::string("array_cap_") + std::to_string(CAPS[sel % 20]));
	} else {
		switch (sel % 5) {
		case 0: v = runStream<8>(start, ops, c, st, nt); break;
		case 1: v = runStream<33>(start, ops, c, st, nt); break;
		case 2: v = runStream<64>(start, ops, c, st, nt); break;
		case 3: v = runStream<129>(start, ops, c, st, nt); break;
		default: v = runStream<1000>(start, ops, c, st, nt); break;
		}
		st.cls("stream_cases");
	}
	if (hv::breaks().count && v.empty()) { char b[300]; std::snprintf(b, sizeof b, "C18 library assertion tripped at %s:%d", hv::breaks().file, hv::breaks().line); v = b; }
	if (nt && v.empty() && st.nontrivial.insert(hv::fnv(c)).second) {
		const std::string kind = mode == 0 ? "array" : "stream";
		if (st.wantSample(kind)) st.addSample(kind, hv_render(c));
	}
	return v;
}

static std::string hv_render(const hv::Bytes& c) {
	hv::Reader r(c);
	const uint8_t mode = r.u8() % 2, sel = r.u8(), start = r.u8();
	std::vector<Op> ops = decodeOps(r);
	std::ostringstream o;
	if (mode == 0) {
		const unsigned N = CAPS[sel % 20];
		o << "BitArrayT<" << N << ">:";
		for (auto& op : ops) o << " " << OPN[op.k % A_OPS_COUNT] << "(" << ((op.a | (op.b << 8)) % N) << "|" << (int) op.a << "," << (int) op.b << "," << (int) op.c << ")";
	} else {
		o << "BitStream<" << SCAPS[sel % 5] << "> start=" << (start % 8) << ":";
		for (auto& op : ops) o << " w" << (1 + op.k % 32);
	}
	return o.str();
}

#ifndef HV_FUZZER
static rc::Gen<hv::Bytes> hv_gen() {
	using namespace rc;
	auto op = gen::map(gen::tuple(hv::byte(), hv::byte(), hv::byte(), hv::byte()), [](const std::tuple<uint8_t, uint8_t, uint8_t, uint8_t>& t) {
		return std::array<uint8_t, 4>{{std::get<0>(t), std::get<1>(t), std::get<2>(t), std::get<3>(t)}};
	});
	return gen::map(gen::tuple(hv::range(0, 2), hv::range(0, 20), hv::range(0, 8), gen::container<std::vector<std::array<uint8_t, 4>>>(op)),
		[](const std::tuple<int, int, int, std::vector<std::array<uint8_t, 4>>>& t) {
			hv::Bytes b{(uint8_t) std::get<0>(t), (uint8_t) std::get<1>(t), (uint8_t) std::get<2>(t)};
			for (auto& o : std::get<3>(t)) b.insert(b.end(), o.begin(), o.end());
			return b;
		});
}
#endif

HV_MAIN("C18 bit arrays and streams")
