// The walker: one machine structure x one configuration. Decodes a byte string into API calls and callback scripts,
// runs them on the real library and judges the run with the per-property oracles (see DESIGN.md section 4).
#include "hv_machine.hpp"
#include "hv_model.hpp"
#include "hv_common.hpp"
#include <sstream>
#include <memory>
#include <algorithm>

using namespace hvm;

#if defined(__has_feature)
#if __has_feature(address_sanitizer)
#include <sanitizer/asan_interface.h>
#define HV_POISON(p, n) ASAN_POISON_MEMORY_REGION(p, n)
#define HV_UNPOISON(p, n) ASAN_UNPOISON_MEMORY_REGION(p, n)
#endif
#endif
#ifndef HV_POISON
#define HV_POISON(p, n) ((void) 0)
#define HV_UNPOISON(p, n) ((void) 0)
#endif

// C11 "never allocates": every operator new while a library call is in progress is counted
static volatile bool g_allocWatch = false; static volatile unsigned long g_allocsInLibrary = 0;
void* operator new(std::size_t n) { if (g_allocWatch) ++g_allocsInLibrary; void* p = std::malloc(n ? n : 1); if (!p) std::abort(); return p; }
void* operator new[](std::size_t n) { if (g_allocWatch) ++g_allocsInLibrary; void* p = std::malloc(n ? n : 1); if (!p) std::abort(); return p; }
void operator delete(void* p) noexcept { std::free(p); }
void operator delete[](void* p) noexcept { std::free(p); }
void operator delete(void* p, std::size_t) noexcept { std::free(p); }
void operator delete[](void* p, std::size_t) noexcept { std::free(p); }
struct LibCall { LibCall() { g_allocWatch = true; } ~LibCall() { g_allocWatch = false; } };
#define LIB(stmt) do { LibCall hv_lib_call_; stmt; } while (0)

namespace {

//------------------------------------------------------------------------------
// case format

static const int HDR = 8, REC = 32;
enum OpKind { OP_UPDATE, OP_REACT_A, OP_REACT_B, OP_QUERY, OP_REQUEST, OP_BATCH, OP_SUCCEED, OP_FAIL, OP_PLAN_APPEND, OP_PLAN_CLEAR, OP_RESET,
			  OP_ENTER_EXIT, OP_SAVE_LOAD, OP_REPLAY, OP_LOGGER, OP_SWITCH, OP_QUERY_B, OP_PLAN_REMOVE, OP_COPY_DROP, OP_CHURN, OP_COUNT };
static const char* OPN[OP_COUNT] = {"update", "react<A>", "react<B>", "query", "request", "batch", "succeed", "fail", "plan.append", "plan.clear", "reset",
			  "enter/exit", "save->load", "replay", "logger", "switch", "query<B>", "plan.remove", "copy+drop-original", "churn"};
static const char* TTN[7] = {"change", "restart", "resume", "select", "utilize", "randomize", "schedule"};
static const char* ACTN[A_COUNT] = {"-", "request", "cancel", "succeed", "fail", "consume", "plan.append", "plan.clear", "burst", "succeed(other)", "fail(other)", "noforward"};
static const char* MN[] = {"none", "select", "rank", "utility", "entryGuard", "enter", "reenter", "preUpdate", "update", "postUpdate", "preReact", "react", "query", "postReact", "exitGuard", "exit", "planSucceeded", "planFailed"};

struct Op { uint8_t kind, a0, a1, a2, flags, envSeed, rndSel, r7; ScriptEntry script[4]; };

struct Case { uint8_t hdr[HDR]; std::vector<Op> ops; };

static const uint8_t SCRIPT_METHODS[] = {(uint8_t) Method::ENTRY_GUARD, (uint8_t) Method::EXIT_GUARD, (uint8_t) Method::ENTER, (uint8_t) Method::EXIT, (uint8_t) Method::REENTER,
	(uint8_t) Method::PRE_UPDATE, (uint8_t) Method::UPDATE, (uint8_t) Method::POST_UPDATE, (uint8_t) Method::PRE_REACT, (uint8_t) Method::REACT, (uint8_t) Method::POST_REACT,
	(uint8_t) Method::QUERY, (uint8_t) Method::PLAN_SUCCEEDED, (uint8_t) Method::PLAN_FAILED};

static Case decode(const hv::Bytes& b) {
	Case c; hv::Reader r(b);
	for (auto& h : c.hdr) h = r.u8();
	while (r.more() && c.ops.size() < 200) {
		Op o; o.kind = r.u8() % OP_COUNT; o.a0 = r.u8(); o.a1 = r.u8(); o.a2 = r.u8(); o.flags = r.u8(); o.envSeed = r.u8(); o.rndSel = r.u8(); o.r7 = r.u8();
		for (auto& e : o.script) {
			{ const uint8_t sb = r.u8(); e.state = sb >= 160 ? (short) -1 : (short) (sb % HV_NS); e.skip = sb >= 160 ? (uint8_t) ((sb - 160) % 6) : 0; } const uint8_t m = r.u8(); e.method = SCRIPT_METHODS[(m & 0x3F) % sizeof SCRIPT_METHODS]; e.inj = (m & 0x80) && (e.state < 0 || hasInjection(e.state)) ? 1 : 0;
			e.action = r.u8() % A_COUNT; e.x = r.u8(); e.y = r.u8(); e.z = r.u8(); e.used = false;
			if (o.kind == OP_ENTER_EXIT) e.method = (uint8_t) Method::ENTRY_GUARD; // the only scriptable callbacks of an activation are the entry guards
		}
#ifdef HV_FUZZER
		if (o.kind == OP_CHURN && (o.flags & 0xE0)) o.kind = OP_UPDATE; // byte-level mutation picks op kinds uniformly: keep long runs to 1 in 160 ops
#endif
		c.ops.push_back(o);
	}
	return c;
}

//------------------------------------------------------------------------------
// environment derived from the case bytes (a pure function of them)

static inline uint32_t mix(uint32_t a, uint32_t b) { uint32_t h = a * 2654435761u ^ (b + 0x9e3779b9u + (a << 6) + (a >> 2)); h ^= h >> 15; h *= 2246822519u; h ^= h >> 13; return h; }
static const float UTILS[8] = {1.0f, 2.0f, 0.5f, 3.0f, 0.1f, 4.0f, 0.3f, 0.7f};
static const float RNDS[12] = {0.0f, 0.5f, 0.25f, 0.75f, 0.999999940395f /*1-2^-24*/, 0.99999988079f /*1-2^-23*/, 5.9604645e-8f /*2^-24*/, 0.3333333f, 0.6666667f, 0.125f, 0.9f, 0.1f};

static void setEnv(Ctx& x, uint8_t envSeed, uint8_t rndSel, bool constantRnd = false) {
	for (int s = 0; s < HV_NS; ++s) {
		const uint32_t h = mix(envSeed, (uint32_t) s);
		const int w = node(s).kind == COMPO ? node(s).nsubs : 1;
		x.sel[s] = (uint8_t) ((h >> 3) % (uint32_t) w);
		x.util[s] = UTILS[(h >> 8) & 7];
		x.rank[s] = (int8_t) ((h >> 12) % 3 == 0 ? 1 : 0);
	}
	for (int k = 0; k < 8; ++k) x.rnd[k] = RNDS[mix(rndSel, (constantRnd ? 0u : (uint32_t) k) + 77u) % 12];
}

//------------------------------------------------------------------------------

struct Round { std::vector<Req> pend; std::vector<uint32_t> tags; std::vector<int> origins; bool cancelled = false; std::vector<Req> issued; int firstEv = 0, lastEv = 0; };

struct Inst {
	Ctx ctx; ScriptRng rng; Logger logger;
	alignas(64) unsigned char storage[sizeof(Instance)];
	alignas(64) unsigned char storage2[sizeof(Instance)];
	Instance* fsm = nullptr; Instance* original = nullptr;   // original: kept alive after the walker switched to a copy
	bool on = false;                 // activated
	bool everBuilt = false;
	Model model;
	std::vector<Req> queued; std::vector<uint32_t> queuedTags;    // requests sitting in the queue between processing steps
	bool loggerOn = true;
	// C03 lifecycle history
	bool entered[HV_NS]; const void* addr[HV_NS];
	std::vector<Req> lastFirstExpected; std::vector<uint32_t> lastFirstTags;
	int8_t activity[HV_NS]; bool activityKnown = false;
	std::vector<uint32_t> planIssuedTags; // payload tags of the tasks executed in this step, in order (filled by judgePlans)
	bool planExists[HV_REGION_COUNT > 0 ? HV_REGION_COUNT : 1], planExists0[HV_REGION_COUNT > 0 ? HV_REGION_COUNT : 1]; bool markS[HV_NS], markF[HV_NS], markS0[HV_NS], markF0[HV_NS];   // C06 bookkeeping (marks outstanding now / at the start of the step)
	bool degenerateReplay = false; bool overlongReplay = false;   // the current call replays more transitions than the transition sets hold (F31)
	bool degeneratePlanDest = false;   // a plan holds (held) a task whose destination is an orthogonal region without composite ancestor (F29)
	bool inUpdateOrReact = false;
	bool outstandingMarks = false;   // success/failure marks set outside update()/react() (externally or from a guard) not yet consumed
	bool modelValid = true;          // false after an op the configuration model does not cover (resynchronised afterwards)
	bool plansUsed = false;

	Inst() { for (auto& e : entered) e = false; for (auto& a : addr) a = nullptr; for (auto& p : planExists) p = false; for (int i = 0; i < HV_NS; ++i) markS[i] = markF[i] = false; }
	// plan.clear() of a region also wipes the success/failure marks of every state in the region's id range
	void clearMarksOfRegion(int region) { if (region < 0 || region >= HV_REGION_COUNT) return; const int head = regionHead(region); for (int s2 = head; s2 < head + node(head).size && s2 < HV_NS; ++s2) markS[s2] = markF[s2] = false; }
	void clearPlanBook() { degeneratePlanDest = false; for (auto& p : planExists) p = false; for (int i = 0; i < HV_NS; ++i) markS[i] = markF[i] = false; }
	~Inst() { destroy(); HV_UNPOISON(storage, sizeof storage); HV_UNPOISON(storage2, sizeof storage2); }
	void build(uint8_t fill, bool withLogger = true) {
		std::memset(storage, fill, sizeof storage);
		ctx.owner = this; rng.ctx = &ctx;
		g_allocWatch = true;
#ifdef HV_RNG_BUILTIN
		fsm = new (storage) Instance{ctx, withLogger ? &logger : nullptr};
#else
		fsm = new (storage) Instance{ctx, rng, withLogger ? &logger : nullptr};
#endif
		g_allocWatch = false;
		everBuilt = true; loggerOn = withLogger;
		stateAddresses(*fsm, addr);
	}
	void destroy() { if (fsm) { fsm->~Instance(); fsm = nullptr; } if (original) { const bool r = ctx.record; ctx.record = false; original->~Instance(); original = nullptr; ctx.record = r; } }
	void dropOriginal() { if (!original) return; const bool r = ctx.record; ctx.record = false; original->~Instance(); ctx.record = r; std::memset((void*) original, 0xDD, sizeof(Instance)); HV_POISON(original, sizeof(Instance)); originalDropped = true; original = nullptr; }
	bool originalDropped = false;
	// C10: continue on a copy of the instance (the original stays alive but idle)
	void switchToCopy(uint8_t fill) { if (!fsm || original) return; unsigned char* target = ((void*) fsm == (void*) storage) ? storage2 : storage; HV_UNPOISON(target, sizeof(Instance)); std::memset(target, fill, sizeof(Instance)); Instance* c = new (target) Instance{*fsm}; original = fsm; fsm = c; stateAddresses(*fsm, addr); }
};

struct Session {
	hv::Stats& st; const std::string prop; const Case& cs;
	std::unique_ptr<Inst> inst[2];
	int cur = 0; uint32_t stepNo = 0;
	std::string failure;            // first violation of the selected property
	bool nontrivial = false;
	// non-triviality evidence
	int planEvents = 0, planLiveness = 0;
	uint64_t digest = 1469598103934665603ull; bool forceNoLogger = false; int copyAt = -1; uint8_t fillOverride = 0; bool useFillOverride = false; int rngDraws = 0; int recordKinds = 0; unsigned recordKindMask = 0;
	bool replica = false; int loadsDiffering = 0; int orderNontrivial = 0, payloadMixed = 0, pendingJudged = 0;
	int cfgChanges = 0, cbChecks = 0, vetoedRounds = 0, multiRound = 0, batches = 0, kindResolved = 0, reentries = 0, loads = 0, replays = 0;

	// C04 metamorphic twin: run 1 notes, per op, which script entries lead to / fire in rounds that are vetoed after the last approved round
	// (suppressOut); the twin run (suppress) executes the same case without them; lifecycle callbacks and configurations of every step (stepLife) must agree
	std::vector<uint8_t> suppress, suppressOut; std::vector<uint64_t> stepLife; uint64_t lifeAcc = 0; size_t curOp = 0; int twinSteps = 0;
	Session(hv::Stats& s, const Case& c) : st(s), prop(hv::opts().prop), cs(c) {}

	bool want(const char* p) const { return prop == p; }
	// a violation of property p was observed; it only decides the run when p is the selected property
	void violation(const char* p, const std::string& what) {
		if (prop == p) { if (failure.empty()) failure = std::string(p) + " " + what; }
		else st.cls(std::string("other_property_alarm_") + p);
	}
	bool known(const char* id) { if (hv::opts().isKnown(id)) { ++st.known[id]; return true; } return false; }
};

//------------------------------------------------------------------------------
// trace analysis helpers

static std::vector<Round> segmentRounds(const Ctx& x, int from = 0) {
	std::vector<Round> rs;
	for (int i = from; i < x.n; ++i) {
		const Ev& e = x.tr[i];
		if (e.kind == E_ROUND) { rs.push_back(Round{}); rs.back().firstEv = i; }
		else if (rs.empty()) continue;
		else if (e.kind == E_PEND) { rs.back().pend.push_back(Req{e.a, e.b}); rs.back().tags.push_back(e.tag); rs.back().origins.push_back(e.state); }
		else if (e.kind == E_ACT_CANCEL) rs.back().cancelled = true;
		else if (e.kind == E_ACT_REQ) rs.back().issued.push_back(Req{e.a, e.b});
		if (!rs.empty()) rs.back().lastEv = i;
	}
	return rs;
}

static bool isLifecycle(const Ev& e) { return e.kind == E_CB && (e.method == (uint8_t) Method::ENTER || e.method == (uint8_t) Method::EXIT || e.method == (uint8_t) Method::REENTER); }
static bool isGuard(const Ev& e) { return e.kind == E_CB && (e.method == (uint8_t) Method::ENTRY_GUARD || e.method == (uint8_t) Method::EXIT_GUARD); }

//------------------------------------------------------------------------------


//------------------------------------------------------------------------------
// C05: expected callback order of update()/react()/query() from the active configuration and the script

struct OrderModel {
	const Cfg& cfg; std::vector<ScriptEntry> script; bool consumed = false;
	struct Rec { int s, m, inj; };
	std::vector<Rec> out;
	OrderModel(const Cfg& c, const Ctx& x) : cfg(c) { for (int i = 0; i < x.nscript; ++i) script.push_back(x.script[i]); }
	void emit(int s, Method m, int inj) {
		out.push_back(Rec{s, (int) m, inj});
		for (auto& e : script) if (!e.used && (e.state == s || e.state < 0) && e.method == (uint8_t) m && e.inj == inj) { if (e.state < 0 && e.skip > 0) { --e.skip; continue; } e.used = true; if (e.action == A_CONSUME || (e.z & 4)) consumed = true; break; }
	}
	void state(int s, Method m, bool injFirst) {
		if (isRegion(s) && node(s).headless) return;
		if (injFirst) { if (hasInjection(s)) emit(s, m, 1); emit(s, m, 0); } else { emit(s, m, 0); if (hasInjection(s)) emit(s, m, 1); }
	}
	void walk(int s, Method m, bool headFirst, bool injFirst, bool stoppable) {
		const Node& nd = node(s);
		if (stoppable && consumed) return;
		if (nd.kind == LEAF) { state(s, m, injFirst); return; }
		auto subs = [&]() {
			if (nd.kind == COMPO) { if (cfg.active[nd.compo] >= 0) walk(sub(s, cfg.active[nd.compo]), m, headFirst, injFirst, stoppable); }
			else for (int i = 0; i < nd.nsubs; ++i) { if (stoppable && consumed) break; walk(sub(s, i), m, headFirst, injFirst, stoppable); } };
		if (headFirst) { state(s, m, injFirst); if (!(stoppable && consumed)) subs(); }
		else { subs(); if (!(stoppable && consumed)) state(s, m, injFirst); }
	}
	void phase(Method m, bool headFirst, bool injFirst, bool stoppable) { consumed = false; walk(0, m, headFirst, injFirst, stoppable); }
};

struct Walker {
	Session& S; hv::Stats& st;
	explicit Walker(Session& s) : S(s), st(s.st) {}

	Inst& I() { return *S.inst[S.cur]; }

	// ---- oracles that run after every API call -------------------------------------------------
	void afterCall(Inst& in, const char* what, bool expectOn) {
		Ctx& x = in.ctx;
		char buf[400];
		if (x.latched) { // violation latched inside a callback: "Cxx text"
			std::string l = x.latch; x.latched = false;
			const std::string p = l.substr(0, 3);
			S.violation(p.c_str(), l.substr(4) + " (during " + what + ", step " + std::to_string(S.stepNo) + ")");
		}
		if (x.overflow) st.cls("trace_overflow");
		{ bool inRound = false;
		  for (int i = 0; i < x.n; ++i) { const Ev& e = x.tr[i];
			if (e.kind == E_ACT_PLAN && e.method != 255 && e.f > 0.5f && e.a >= 0 && e.a < HV_REGION_COUNT) in.planExists[e.a] = true;
			if (e.kind == E_ACT_PLAN) { in.plansUsed = true; if (e.method != 255 && e.b > 0 && e.b < HV_NS && node(e.b).kind != LEAF) { bool onlyOrtho = true; for (int c = node(e.b).parent; c >= 0; c = node(c).parent) if (node(c).kind != ORTHO) onlyOrtho = false; if (onlyOrtho) in.degeneratePlanDest = true; } }
			if (e.kind == E_ROUND) inRound = true;
			// marks set while transitions are being processed are not consumed by this step's plan update
			if ((e.kind == E_ACT_SUCCEED || e.kind == E_ACT_FAIL) && (inRound || !in.inUpdateOrReact)) in.outstandingMarks = true;
			// C06 bookkeeping outside update()/react(): marks stay until their state exits or the next update()/react() consumes them
			if (!in.inUpdateOrReact) { if (e.kind == E_ACT_PLAN && e.method == 255) in.clearMarksOfRegion(e.a); if (e.kind == E_ACT_SUCCEED) in.markS[e.a] = true; if (e.kind == E_ACT_FAIL) in.markF[e.a] = true; if (e.kind == E_CB && e.method == (uint8_t) Method::EXIT && e.a == 0) in.markS[e.state] = in.markF[e.state] = false; } } }
		// C11: library assertions
		auto& b = hv::breaks();
		if (b.count) {
			std::snprintf(buf, sizeof buf, "library assertion tripped at %s:%d during %s (step %u)", b.file ? b.file : "?", b.line, what, S.stepNo);
			if (!classifyKnownBreak(in, b)) S.violation("C11", buf);
			b = hv::BreakLatch{};
		}
		if (g_allocsInLibrary) { std::snprintf(buf, sizeof buf, "the library allocated dynamic memory %lu time(s) during %s (step %u)", (unsigned long) g_allocsInLibrary, what, S.stepNo); S.violation("C11", buf); g_allocsInLibrary = 0; }
		// C01: configuration invariant through the instance's own answers
		char why[200];
		if (!configWellFormed(*in.fsm, expectOn, why, sizeof why)) { std::snprintf(buf, sizeof buf, "after %s (step %u): %s", what, S.stepNo, why); S.violation("C01", buf); if (std::strstr(why, "activeSubState")) S.violation("C13", buf); }
		if (S.want("C13")) for (int s = 0; s < HV_NS; ++s) if (in.fsm->isPendingEnter((StateID) s) || in.fsm->isPendingExit((StateID) s) || in.fsm->isPendingChange((StateID) s)) { std::snprintf(buf, sizeof buf, "after %s (step %u) a pending query answers true for state %d although nothing is pending", what, S.stepNo, s); S.violation("C13", buf); break; }
		if (S.want("C13")) for (int s = 0; s < HV_NS; ++s) if (in.fsm->isScheduled((StateID) s) != in.fsm->isResumable((StateID) s)) { S.violation("C13", "isScheduled() and isResumable() disagree"); break; }
		// C13: a sub-state of an orthogonal region is exactly as resumable as the region (the nearest composite ancestor decides; none => never)
		if (S.want("C13")) { bool seen = false; for (int s = 1; s < HV_NS; ++s) { const int p = node(s).parent; if (p < 0 || node(p).kind != ORTHO) continue;
			const bool own = in.fsm->isResumable((StateID) s), reg = p == 0 ? false : in.fsm->isResumable((StateID) p);
			if (own && !seen) { seen = true; st.cls("calls_with_resumable_state_below_orthogonal"); }
			if (own != reg) { std::snprintf(buf, sizeof buf, "after %s (step %u) isResumable(%d) is %d but its orthogonal parent region %d answers %d (a resume of the enclosing region activates both or neither)", what, S.stepNo, s, (int) own, p, (int) reg); S.violation("C13", buf); break; } } }
		S.cbChecks += (int) x.cbInvariantChecks; x.cbInvariantChecks = 0;
		lifecycle(in, what);
		judgeLogger(in, what);
		judgeReport(in, what, expectOn);
		for (int i = 0; i < x.n; ++i) { const Ev& e = x.tr[i]; if (e.kind == E_RNG) ++S.rngDraws; if (e.kind >= E_LOG_METHOD && e.kind <= E_LOG_RANDOM) continue; const uint32_t w[6] = {e.kind, e.method, (uint32_t) e.state, (uint32_t) e.a, (uint32_t) e.b, e.tag}; S.digest = hv::fnv((const uint8_t*) w, sizeof w, S.digest); }
		if (expectOn) { const Cfg c = readCfg(*in.fsm); S.digest = hv::fnv((const uint8_t*) c.active, sizeof c.active, S.digest); S.digest = hv::fnv((const uint8_t*) c.resumable, sizeof c.resumable, S.digest); }
		if (S.want("C04")) { for (int i = 0; i < x.n; ++i) { const Ev& e = x.tr[i]; if (!(e.kind == E_CB && (e.method == (uint8_t) Method::ENTER || e.method == (uint8_t) Method::EXIT || e.method == (uint8_t) Method::REENTER))) continue; const uint32_t w[3] = {e.method, (uint32_t) e.state, (uint32_t) e.a}; S.lifeAcc = hv::fnv((const uint8_t*) w, sizeof w, S.lifeAcc); }
			if (expectOn) { const Cfg c = readCfg(*in.fsm); S.lifeAcc = hv::fnv((const uint8_t*) c.active, sizeof c.active, S.lifeAcc); S.lifeAcc = hv::fnv((const uint8_t*) c.resumable, sizeof c.resumable, S.lifeAcc); } }
	}

	bool classifyKnownBreak(Inst& in, const hv::BreakLatch& b) {
		if (b.file) {
			static std::string cachedFile; static std::vector<std::string> lines;
			if (cachedFile != b.file) { cachedFile = b.file; lines.clear(); FILE* f = std::fopen(b.file, "r"); if (f) { char l[1024]; while (std::fgets(l, sizeof l, f)) lines.push_back(l); std::fclose(f); } }
			const std::string text = b.line >= 1 && b.line <= (int) lines.size() ? lines[b.line - 1] : "";
			// F23: a state that carries a success/failure mark set outside update()/react() is (re-)entered
			bool guardMark = false; { bool inRound = false; for (int i = 0; i < in.ctx.n; ++i) { if (in.ctx.tr[i].kind == E_ROUND) inRound = true; if ((in.ctx.tr[i].kind == E_ACT_SUCCEED || in.ctx.tr[i].kind == E_ACT_FAIL) && (inRound || !in.inUpdateOrReact)) guardMark = true; } }
			if ((in.outstandingMarks || guardMark) && (text.find("!tasksSuccesses.get(stateId)") != std::string::npos || text.find("!tasksFailures .get(stateId)") != std::string::npos)) return S.known("F23");
		}
		// F31: a history longer than the capacity of the transition sets is replayed
		if (b.file && in.overlongReplay) {
			FILE* f = std::fopen(b.file, "r"); std::string text; if (f) { char l[1024]; int n = 0; while (std::fgets(l, sizeof l, f)) if (++n == b.line) { text = l; break; } std::fclose(f); }
			if (text.find("index < TransitionSets::CAPACITY") != std::string::npos) return S.known("F31");
		}
		// F29: destination = a region without any composite ancestor (an orthogonal region itself, or a composite region holding an active orthogonal one)
		if (b.file) {
			FILE* f = std::fopen(b.file, "r"); std::string text; if (f) { char l[1024]; int n = 0; while (std::fgets(l, sizeof l, f)) if (++n == b.line) { text = l; break; } std::fclose(f); }
			if (text.find("HFSM2_ASSERT(!!requested)") != std::string::npos) {
				bool degenerate = false;
				for (int i = 0; i < in.ctx.n; ++i) { const Ev& e = in.ctx.tr[i]; if ((e.kind == E_ACT_REQ || e.kind == E_PEND || e.kind == E_LOG_TRANSITION) && e.a != T_SCHEDULE && e.b > 0 && e.b < HV_NS && node(e.b).kind != LEAF) { bool onlyOrtho = true; for (int c = node(e.b).parent; c >= 0; c = node(c).parent) if (node(c).kind != ORTHO) onlyOrtho = false; if (onlyOrtho) degenerate = true; } }
				for (auto& q : in.queued) if (q.type != T_SCHEDULE && q.dest > 0 && node(q.dest).kind != LEAF) { bool onlyOrtho = true; for (int c = node(q.dest).parent; c >= 0; c = node(c).parent) if (node(c).kind != ORTHO) onlyOrtho = false; if (onlyOrtho) degenerate = true; }
				if (degenerate || in.degeneratePlanDest || in.degenerateReplay) return S.known("F29");
			}
		}
		// F14: the request queue is not empty after the substitution limit was reached
		if (in.ctx.rounds >= HV_SUBST_LIMIT && b.file) {
			static std::string cachedFile; static std::vector<std::string> lines;
			if (cachedFile != b.file) { cachedFile = b.file; lines.clear(); FILE* f = std::fopen(b.file, "r"); if (f) { char l[1024]; while (std::fgets(l, sizeof l, f)) lines.push_back(l); std::fclose(f); } }
			if (b.line >= 1 && b.line <= (int) lines.size() && lines[b.line - 1].find("_core.requests.count() == 0") != std::string::npos) return S.known("F14");
		}
		return false;
	}

	// C03: enter/exit alternate, nested, callbacks only while entered, on the right object
	void lifecycle(Inst& in, const char* what) {
		Ctx& x = in.ctx; char buf[300];
		for (int i = 0; i < x.n; ++i) {
			const Ev& e = x.tr[i];
			if (e.kind != E_CB) continue;
			const int s = e.state; const Method m = (Method) e.method;
			if (s < 0 || s >= HV_NS) { S.violation("C03", "callback with an out-of-range state id"); continue; }
			if (e.a == 0 && e.b != s && m != Method::SELECT && m != Method::RANK && m != Method::UTILITY) { std::snprintf(buf, sizeof buf, "callback %s of St<%d> ran with control.stateId() == %d", MN[e.method], s, e.b); S.violation("C17", buf); }
			if (in.addr[s] && e.self != in.addr[s]) { std::snprintf(buf, sizeof buf, "%s of state %d ran on object %p, access<St<%d>>() is %p (during %s)", MN[e.method], s, e.self, s, in.addr[s], what); S.violation("C03", buf); }
			switch (m) {
			case Method::ENTER:
				if (e.a != 0) break; // injected handler: same state, judged through the own handler
				if (in.entered[s]) { std::snprintf(buf, sizeof buf, "enter delivered to state %d which is already entered (during %s, step %u)", s, what, S.stepNo); S.violation("C03", buf); }
				if (node(s).parent >= 0 && !enteredOrHeadless(in, node(s).parent)) { std::snprintf(buf, sizeof buf, "state %d entered before its parent %d (during %s, step %u)", s, node(s).parent, what, S.stepNo); S.violation("C03", buf); }
				in.entered[s] = true; break;
			case Method::EXIT:
				if (e.a != 0) break;
				if (!in.entered[s]) { std::snprintf(buf, sizeof buf, "exit delivered to state %d which is not entered (during %s, step %u)", s, what, S.stepNo); S.violation("C03", buf); }
				for (int k = 0; k < node(s).nsubs; ++k) if (subtreeEntered(in, sub(s, k))) { std::snprintf(buf, sizeof buf, "state %d exited before its sub-state subtree %d (during %s, step %u)", s, sub(s, k), what, S.stepNo); S.violation("C03", buf); }
				in.entered[s] = false; break;
			case Method::ENTRY_GUARD: case Method::SELECT: case Method::RANK: case Method::UTILITY: break; // delivered to states that are (possibly) not entered
			default:
				if (!in.entered[s]) { std::snprintf(buf, sizeof buf, "%s delivered to state %d which is not entered (during %s, step %u)", MN[e.method], s, what, S.stepNo); S.violation("C03", buf); }
			}
		}
	}
	static bool enteredOrHeadless(Inst& in, int s) { // anonymous heads receive no callbacks: look further up
		while (s >= 0 && isRegion(s) && node(s).headless) s = node(s).parent;
		return s < 0 || in.entered[s];
	}
	static bool subtreeEntered(Inst& in, int s) { for (int k = s; k < s + node(s).size; ++k) if (in.entered[k]) return true; return false; }

	// entered set must mirror the active set between API calls (for states with a user object)
	void enteredMatchesActive(Inst& in, const char* what) {
		char buf[200];
		for (int s = 0; s < HV_NS; ++s) {
			if (isRegion(s) && node(s).headless) continue;
			const bool act = in.on && in.fsm->isActive((StateID) s);
			if (act != in.entered[s]) { std::snprintf(buf, sizeof buf, "after %s (step %u): state %d is %s but its enter/exit history says %s", what, S.stepNo, s, act ? "active" : "inactive", in.entered[s] ? "entered" : "not entered"); S.violation("C03", buf); in.entered[s] = act; }
		}
	}

	// ---- request bookkeeping --------------------------------------------------------------------
	void queueExternal(Inst& in, int type, int dest, uint32_t tag) {
		if ((int) in.queued.size() < HV_COMPO_COUNT) { in.queued.push_back(Req{type, dest}); in.queuedTags.push_back(tag); }
		else st.cls("queue_overflow_rejected");
	}

	template <typename F> void apiRequest(Inst& in, int type, int dest, bool immediate, bool payload, F&& afterwards) {
		saneRequest(type, dest);
		Ctx& x = in.ctx;
		uint32_t tag = NO_TAG;
		if (payload && HAS_PAYLOAD) tag = x.stepTag * 64u + (x.seq++ % 64u);
		x.push(E_ACT_REQ, 0, -1, type, dest, tag);
		queueExternal(in, type, dest, tag);
		const StateID d = (StateID) dest;
		Instance& f = *in.fsm;
#if HV_PAYLOAD != 0
		if (tag != NO_TAG) {
			const Payload p = makePayload(tag);
			g_allocWatch = true;
			if (immediate) switch (type) { case 0: f.immediateChangeWith(d, p); break; case 1: f.immediateRestartWith(d, p); break; case 2: f.immediateResumeWith(d, p); break; case 3: f.immediateSelectWith(d, p); break; case 4: f.immediateUtilizeWith(d, p); break; default: f.immediateRandomizeWith(d, p); break; }
			else switch (type) { case 0: f.changeWith(d, p); break; case 1: f.restartWith(d, p); break; case 2: f.resumeWith(d, p); break; case 3: f.selectWith(d, p); break; case 4: f.utilizeWith(d, p); break; case 5: f.randomizeWith(d, p); break; default: f.scheduleWith(d, p); break; }
			g_allocWatch = false;
			afterwards(); return;
		}
#endif
		LibCall hv_lib_call_;
		if (immediate) switch (type) { case 0: f.immediateChangeTo(d); break; case 1: f.immediateRestart(d); break; case 2: f.immediateResume(d); break; case 3: f.immediateSelect(d); break; case 4: f.immediateUtilize(d); break; default: f.immediateRandomize(d); break; }
		else switch (type) { case 0: f.changeTo(d); break; case 1: f.restart(d); break; case 2: f.resume(d); break; case 3: f.select(d); break; case 4: f.utilize(d); break; case 5: f.randomize(d); break; default: f.schedule(d); break; }
		g_allocWatch = false;
		afterwards();
	}

	// ---- one processing step judged against the configuration model (C02, C04, C09, C13, C14) ----
	void judgeProcessing(Inst& in, const char* what, const Cfg& before, const bool wasActive[HV_NS]);

	// F27: an orthogonal region forwards guards only to the prongs requested by path once any prong is
	static bool orthoGuardGap(const std::vector<Round>& rs, int s) {
		for (int o = node(s).parent, child = s; o >= 0; child = o, o = node(o).parent) {
			if (node(o).kind != ORTHO) continue;
			const int myProng = node(child).prong; bool any = false, mine = false;
			for (auto& r : rs) if (!r.cancelled) for (auto& p : r.pend) if (p.type != T_SCHEDULE && p.dest != o && Model::onPath(o, p.dest)) {
				int c = p.dest; while (node(c).parent != o) c = node(c).parent;
				any = true; if (node(c).prong == myProng) mine = true; }
			if (any && !mine) return true;
		}
		return false;
	}

	void installScript(Inst& in, const Op& o, int n = 4) { Ctx& x = in.ctx; x.nscript = 0; for (int i = 0; i < n; ++i) if (o.script[i].action != A_NONE) {
		x.script[x.nscript] = o.script[i]; x.script[x.nscript].used = false; x.script[x.nscript].firedAt = -1; x.script[x.nscript].idx = (uint8_t) i;
		if (S.curOp < S.suppress.size() && ((S.suppress[S.curOp] >> i) & 1)) x.script[x.nscript].action = A_NOP; // twin run: the entry still matches its callback, but does nothing
		++x.nscript; } }
	void planTwin(Inst& in, const std::vector<Round>& rs);

	void run();
	void step(const Op& o, size_t index);
	void firstActivation(Inst& in);
	void judgeLogger(Inst& in, const char* what);
	struct PTask { int origin, dest, type; uint32_t tag; };
	std::vector<PTask> readPlan(Inst& in, int r);
	void judgePlans(Inst& in, const std::vector<std::vector<PTask>>& before, const bool wasActive[HV_NS], const char* what);
	void judgeReport(Inst& in, const char* what, bool on);
	void saveLoad(Inst& src, Inst& dst);
	void judgeOrder(Inst& in, const OrderModel& om, const char* what);
	void judgeHistory(Inst& in, const char* what, const std::vector<Round>& rs, const bool wasActive[HV_NS]);
	void replicaFollow(Inst& a, const char* what, bool singleRoundNoSchedule, bool unrecordedSchedule);
};

//------------------------------------------------------------------------------

void Walker::judgeProcessing(Inst& in, const char* what, const Cfg& before, const bool wasActive[HV_NS]) {
	Ctx& x = in.ctx; char buf[600];
	if (x.overflow) { in.model.cfg = readCfg(*in.fsm); in.queued.clear(); in.queuedTags.clear(); return; }
	std::vector<Round> rs = segmentRounds(x);
	if (S.want("C04") && S.suppress.empty() && !RNG_BUILTIN && !x.overflow) planTwin(in, rs);
	// C13: the sub-state reported resumable for a region is the one a subsequent resume of that region activates (none reported: the first)
	if (S.want("C13") && rs.size() == 1 && !rs[0].cancelled && rs[0].pend.size() == 1 && rs[0].issued.empty() && rs[0].pend[0].type == T_RESUME) {
		const int d = rs[0].pend[0].dest;
		if (d >= 0 && d < HV_NS && node(d).kind == COMPO && in.fsm->isActive((StateID) d)) {
			const int r0 = before.resumable[node(d).compo], expectProng = r0 >= 0 ? r0 : 0, got = (int) in.fsm->activeSubState((StateID) d);
			st.cls("resume_of_region_judged"); if (r0 >= 0) st.cls("resume_of_region_with_resumable_mark");
			if (got != expectProng) { std::snprintf(buf, sizeof buf, "resume(%d): sub-state %d of the region was reported resumable before the request (-1: none), but sub-state %d was activated (%s, step %u)", d, r0, got, what, S.stepNo); S.violation("C13", buf); } } }
	const int limit = HV_SUBST_LIMIT;
	// requests the script issued before the first round (update/react phases)
	std::vector<Req> pre; std::vector<uint32_t> preTags;
	for (int i = 0; i < x.n && (rs.empty() || i < rs[0].firstEv); ++i) if (x.tr[i].kind == E_ACT_REQ && x.tr[i].state >= 0) { pre.push_back(Req{x.tr[i].a, x.tr[i].b}); preTags.push_back(x.tr[i].tag); }
	std::vector<Req> firstExpected = in.queued; std::vector<uint32_t> firstTags = in.queuedTags;
	for (size_t i = 0; i < pre.size(); ++i) { if ((int) firstExpected.size() < HV_COMPO_COUNT) { firstExpected.push_back(pre[i]); firstTags.push_back(preTags[i]); } else st.cls("queue_overflow_rejected"); }
	// requests issued by plan tasks (after the phases, on behalf of region heads) are seen through the logger
	size_t nIssued = 0;
	for (int i = 0; i < x.n && (rs.empty() || i < rs[0].firstEv); ++i) if (x.tr[i].kind == E_LOG_TRANSITION && !(i > 0 && x.tr[i - 1].kind == E_ACT_REQ)) {
		const size_t idx = nIssued++; // same enumeration as judgePlans' `issued`
		if (x.tr[i].state >= 0 && (int) firstExpected.size() < HV_COMPO_COUNT) { firstExpected.push_back(Req{x.tr[i].a, x.tr[i].b}); firstTags.push_back(idx < in.planIssuedTags.size() ? in.planIssuedTags[idx] : 0xFFFFFFFEu /* task not identified */); } }
	in.planIssuedTags.clear();
	in.lastFirstExpected = firstExpected; in.lastFirstTags = firstTags;
	const bool planActivity = in.plansUsed;
	if (rs.size() > 1) ++S.multiRound;
	for (auto& r : rs) if (r.cancelled) ++S.vetoedRounds;
	st.cls("processing_steps"); if (!rs.empty()) st.cls("steps_with_guard_rounds"); if (rs.size() > 1) st.cls("steps_multi_round");
	if ((int) rs.size() >= limit) st.cls("steps_reaching_substitution_limit");

	// ---- C04 (e): bounded number of rounds
	if ((int) rs.size() > limit) { std::snprintf(buf, sizeof buf, "%zu guard rounds in one processing step, substitution limit is %d (%s, step %u)", rs.size(), limit, what, S.stepNo); S.violation("C04", buf); }

	// ---- C04 (b) / C14: every round's pending list is what was issued, in order, with the payloads it was issued with
	if (!planActivity || (in.loggerOn && !x.overflow)) { // with plans in play the requests they issue are only visible through the logger
		for (size_t k = 0; k < rs.size(); ++k) {
			std::vector<Req> expect; std::vector<uint32_t> etags;
			if (k == 0) { expect = firstExpected; etags = firstTags; }
			else { for (int i = rs[k - 1].firstEv; i <= rs[k - 1].lastEv; ++i) if (x.tr[i].kind == E_ACT_REQ && (int) expect.size() < HV_COMPO_COUNT) { expect.push_back(Req{x.tr[i].a, x.tr[i].b}); etags.push_back(x.tr[i].tag); } }
			bool same = expect.size() == rs[k].pend.size();
			for (size_t i = 0; same && i < expect.size(); ++i) same = expect[i].type == rs[k].pend[i].type && expect[i].dest == rs[k].pend[i].dest;
			if (!same) { std::snprintf(buf, sizeof buf, "round %zu: guards saw %zu pending transitions, %zu were requested for this round (%s, step %u)", k, rs[k].pend.size(), expect.size(), what, S.stepNo); S.violation("C04", buf); }
			else for (size_t i = 0; i < expect.size(); ++i) if (etags[i] != rs[k].tags[i] && etags[i] != 0xFFFFFFFEu) { std::snprintf(buf, sizeof buf, "round %zu pending transition %zu (%s -> %d) carries payload tag %x, it was requested with %x (%s, step %u)", k, i, TTN[expect[i].type], expect[i].dest, rs[k].tags[i], etags[i], what, S.stepNo); S.violation("C14", buf); }
		}
	}

	// ---- C04 (a): no lifecycle callback before the last guard; (c) guards cover every state that changes; (d) veto is atomic
	int lastGuard = -1, firstLife = -1;
	for (int i = 0; i < x.n; ++i) { if (isGuard(x.tr[i])) lastGuard = i; if (isLifecycle(x.tr[i]) && firstLife < 0) firstLife = i; }
	if (firstLife >= 0 && lastGuard > firstLife) { std::snprintf(buf, sizeof buf, "a guard ran after a lifecycle callback of the same step (%s, step %u)", what, S.stepNo); S.violation("C04", buf); }
	int lastApproved = -1; for (size_t k = 0; k < rs.size(); ++k) if (!rs[k].cancelled) lastApproved = (int) k;
	for (size_t k = 0; k < rs.size(); ++k) { // exit guards before entry guards within a round
		bool seenEntry = false;
		for (int i = rs[k].firstEv; i <= rs[k].lastEv; ++i) { if (x.tr[i].kind != E_CB) continue; if (x.tr[i].method == (uint8_t) Method::ENTRY_GUARD) seenEntry = true; else if (x.tr[i].method == (uint8_t) Method::EXIT_GUARD && seenEntry) { std::snprintf(buf, sizeof buf, "round %zu: exit guard of state %d after an entry guard (%s, step %u)", k, x.tr[i].state, what, S.stepNo); S.violation("C04", buf); break; } }
	}
	if (firstLife >= 0) {
		if (lastApproved < 0 && !rs.empty()) { std::snprintf(buf, sizeof buf, "lifecycle callbacks ran although every round was cancelled (%s, step %u)", what, S.stepNo); S.violation("C04", buf); }
		else if (lastApproved >= 0) {
			bool xg[HV_NS] = {false}, ng[HV_NS] = {false};
			for (int i = rs[lastApproved].firstEv; i <= rs[lastApproved].lastEv; ++i) { const Ev& e = x.tr[i]; if (e.kind == E_CB && e.a == 0) { if (e.method == (uint8_t) Method::EXIT_GUARD) xg[e.state] = true; if (e.method == (uint8_t) Method::ENTRY_GUARD) ng[e.state] = true; } }
			for (int i = firstLife; i < x.n; ++i) { const Ev& e = x.tr[i]; if (!isLifecycle(e) || e.a != 0) continue;
				const bool ok = e.method == (uint8_t) Method::EXIT ? xg[e.state] : ng[e.state];
				if (!ok && orthoGuardGap(rs, e.state) && S.known("F27")) continue;
				if (!ok) { std::snprintf(buf, sizeof buf, "state %d received %s without its %s guard having been invoked in the last approved round (%s, step %u)", e.state, MN[e.method], e.method == (uint8_t) Method::EXIT ? "exit" : "entry", what, S.stepNo); S.violation("C04", buf); break; } }
		}
	}

	// ---- the model over the approved rounds
	Model& m = in.model;
	m.env = Env{x.sel, x.util, x.rank, x.rnd, 0};
	m.clearReq();
	bool any = false; std::vector<Req> applied; bool hasSchedule = false; int transitionReqs = 0;
	std::vector<int> footprints;
	auto applyTracked = [&](const Req& r) {
		short reqBefore[HV_COMPO_COUNT]; std::memcpy(reqBefore, m.req, sizeof reqBefore);
		m.applyOne(r);
		if (r.type == T_SCHEDULE) { hasSchedule = true; return; }
		++transitionReqs;
		int top = -1; // topmost region (state id of its head) whose requested sub-state this request wrote
		for (int s = 0; s < HV_NS; ++s) if (node(s).kind == COMPO && m.req[node(s).compo] != reqBefore[node(s).compo]) { top = s; break; }
		if (top < 0) { int c = r.dest; while (c >= 0 && node(c).kind != COMPO) c = node(c).parent; if (r.dest != 0) { c = node(r.dest).parent; while (c >= 0 && node(c).kind != COMPO) c = node(c).parent; } top = c < 0 ? 0 : c; }
		footprints.push_back(top);
	};
	if (rs.empty()) { for (auto& r : firstExpected) { applyTracked(r); applied.push_back(r); } }
	else {
		for (size_t rk = 0; rk < rs.size(); ++rk) { auto& r = rs[rk];
			// generator outputs are taken in the order the library consumed them, re-aligned at every round: what a vetoed round drew
			// (possibly differently, see overlapping requests) must not shift the outputs of the rounds that follow
			{ int used = 0; if (rk > 0) { int lastGuardEv = rs[rk - 1].firstEv; for (int i = rs[rk - 1].firstEv; i <= rs[rk - 1].lastEv; ++i) if (isGuard(x.tr[i])) lastGuardEv = i; for (int i = 0; i <= lastGuardEv; ++i) if (x.tr[i].kind == E_RNG) ++used; } m.env.rndUsed = used; }
			short backup[HV_COMPO_COUNT]; char backupRemain[HV_COMPO_COUNT]; std::memcpy(backup, m.req, sizeof backup); std::memcpy(backupRemain, m.remain, sizeof backupRemain);
			const size_t fp = footprints.size(); const int tr0 = transitionReqs;
			for (auto& p : r.pend) applyTracked(p);
			if (r.cancelled) { std::memcpy(m.req, backup, sizeof backup); std::memcpy(m.remain, backupRemain, sizeof backupRemain); footprints.resize(fp); transitionReqs = tr0; }
			else { any = true; for (auto& p : r.pend) applied.push_back(p); }
		}
		// requests issued by guards of the last observed round that caused no further round (schedules, no-ops)
		// (the library applies them; when they do not alter the requested configuration no guard round follows and they are not recorded -
		//  but a schedule still marks its destination and a transition still flags the regions it walks through to be exited and entered: F15)
		if (!rs.back().issued.empty() && (int) rs.size() < limit) { int taken = 0; for (auto& p : rs.back().issued) { if (taken++ >= HV_COMPO_COUNT) break; Req q = p; saneRequest(q.type, q.dest); if (q.type == T_SCHEDULE) hasSchedule = true; else st.cls("silent_round_transition_request"); m.applyOne(q); } }
	}
	if (rs.empty()) { for (auto& r : firstExpected) if (r.type != T_SCHEDULE) any = true; }
	const bool libChanged = firstLife >= 0;
	if (any && m.cfg.on) m.commit(0);
	bool overlap = false;
	for (size_t i = 0; i < footprints.size() && !overlap; ++i) for (size_t j = i + 1; j < footprints.size(); ++j) if (Model::onPath(footprints[i], footprints[j]) || Model::onPath(footprints[j], footprints[i])) { overlap = true; break; }
	// F35: every request is forwarded from the apex through everything requested so far, and an orthogonal region that was requested as a whole
	// (it, or a region around it, was the destination of an earlier request of the step) is then resolved again - with the kind of the later
	// request and fresh generator outputs. Such steps get the postcondition like overlapping ones.
	{ int lastIdx = -1; for (size_t i = 0; i < applied.size(); ++i) if (applied[i].type != T_SCHEDULE) lastIdx = (int) i;
	  bool reresolved = false;
	  for (int i = 0; i < lastIdx && !reresolved; ++i) { if (applied[i].type == T_SCHEDULE) continue; const int d = applied[i].dest;
		for (int s2 = d; s2 < d + node(d).size && s2 < HV_NS; ++s2) if (node(s2).kind == ORTHO) { reresolved = true; break; } }
	  if (reresolved && S.known("F35")) { st.cls("steps_with_reresolved_orthogonal_territory_F35"); overlap = true; } }
	if (transitionReqs >= 2) { ++S.batches; st.cls("steps_with_batch"); if (overlap) st.cls("steps_with_overlapping_requests"); }
	if (m.resolvedByKind) { ++S.kindResolved; st.cls("steps_resolved_by_kind"); }
	if (m.usedRandom) st.cls("steps_with_random_draw");

	// leftover requests when the substitution limit was reached stay queued (F14)
	in.queued.clear(); in.queuedTags.clear();
	if ((int) rs.size() >= limit && !rs.empty() && !rs.back().issued.empty()) {
		for (int i = rs.back().firstEv; i <= rs.back().lastEv; ++i) if (x.tr[i].kind == E_ACT_REQ && (int) in.queued.size() < HV_COMPO_COUNT) { in.queued.push_back(Req{x.tr[i].a, x.tr[i].b}); in.queuedTags.push_back(x.tr[i].tag); }
		st.cls("steps_with_leftover_requests");
	}

	const Cfg lib = readCfg(*in.fsm);
	if (!lib.sameActive(before)) { ++S.cfgChanges; st.cls("steps_changing_configuration"); }
	// ---- C04 (d): nothing approved => nothing changes (except marks set by schedule)
	if (!rs.empty() && lastApproved < 0) {
		Cfg expect = before; Model tmp = m; tmp.cfg = before; tmp.clearReq();
		for (auto& r : rs) for (auto& p : r.pend) if (p.type == T_SCHEDULE) tmp.applyOne(p);
		if ((int) rs.size() < limit) { int taken = 0; for (auto& p : rs.back().issued) { if (taken++ >= HV_COMPO_COUNT) break; if (p.type == T_SCHEDULE) { Req q = p; saneRequest(q.type, q.dest); tmp.applyOne(q); } } }
		expect = tmp.cfg;
		if (!lib.sameActive(expect) || !lib.sameResumable(expect)) { std::snprintf(buf, sizeof buf, "every round was cancelled but the configuration changed: before %s after %s (%s, step %u)", before.str().c_str(), lib.str().c_str(), what, S.stepNo); S.violation("C04", buf); }
	}
	(void) libChanged; (void) wasActive;
	// ---- C02: the prescribed configuration
	if (in.modelValid && !m.randomNone && !(RNG_BUILTIN && m.usedRandom)) {
		const bool sameA = lib.sameActive(m.cfg), sameR = lib.sameResumable(m.cfg);
		if (!(sameA && sameR)) {
			if (overlap) {
				st.cls("overlap_disagreement_with_sequential_model");
				// postcondition only: the destination of the last transition request and all its ancestors are active
				int lastDest = -1; for (auto& r : applied) if (r.type != T_SCHEDULE) lastDest = r.dest;
				// F34: an earlier request of the step that targets an ancestor region (or another branch of one) two or more composite levels above
				// the last destination makes the regions in between be resolved again by their strategy, which can deactivate the last destination
				bool f34 = false;
				if (lastDest >= 0) { int chain[3], n = 0; for (int c2 = node(lastDest).parent; c2 >= 0 && n < 3; c2 = node(c2).parent) if (node(c2).kind == COMPO) chain[n++] = c2;
					if (n == 3) { int lastIdx = -1; for (size_t i = 0; i < applied.size(); ++i) if (applied[i].type != T_SCHEDULE) lastIdx = (int) i;
						for (int i = 0; i < lastIdx; ++i) { if (applied[i].type == T_SCHEDULE) continue; bool inside = false; for (int c2 = applied[i].dest; c2 >= 0; c2 = node(c2).parent) if (c2 == chain[1]) inside = true; if (!inside) f34 = true; } } }
				// ... and it is only F34 when the region that lost the path was left without a request of its own: let T be the highest inactive state on
				// the path and P its (active) parent; an earlier request aimed at P itself or at another branch of P means the later request simply
				// lost against the earlier one - that is not tolerated
				if (f34 && lastDest >= 0) { int T = -1; for (int c = lastDest; c >= 0; c = node(c).parent) if (!in.fsm->isActive((StateID) c)) T = c;
					if (T > 0) { const int P = node(T).parent; int lastIdx = -1; for (size_t i = 0; i < applied.size(); ++i) if (applied[i].type != T_SCHEDULE) lastIdx = (int) i;
						for (int i = 0; i < lastIdx; ++i) { if (applied[i].type == T_SCHEDULE) continue; const int d = applied[i].dest; bool inP = false, inT = false; for (int c2 = d; c2 >= 0; c2 = node(c2).parent) { if (c2 == P) inP = true; if (c2 == T) inT = true; }
							if (d == P || (inP && !inT)) f34 = false; } } }
				if (lastDest >= 0 && any) for (int c = lastDest; c >= 0; c = node(c).parent) if (!in.fsm->isActive((StateID) c)) { if (f34 && S.known("F34")) { st.cls("postcondition_failures_tolerated_F34"); break; } std::snprintf(buf, sizeof buf, "after an approved batch the destination %d of the last request is not active (state %d inactive) (%s, step %u)", lastDest, c, what, S.stepNo); S.violation("C02", buf); break; }
			} else {
				std::ostringstream o; o << "configuration differs from the prescribed one after " << what << " (step " << S.stepNo << "): requests";
				for (auto& r : applied) o << " " << TTN[r.type] << "->" << r.dest;
				o << "; before " << before.str() << "; library " << lib.str() << "; prescribed " << m.cfg.str() << (sameA ? " (resumable marks differ)" : "");
				S.violation("C02", o.str());
				// C04: with vetoed or substituted rounds in the step, the outcome must be that of the approved rounds only
				if (rs.size() >= 2 || (!rs.empty() && lastApproved != (int) rs.size() - 1)) S.violation("C04", "the final configuration is not the one the approved rounds lead to: " + o.str());
			}
		} else if (transitionReqs >= 1) { st.cls("steps_agreeing_with_model");
			// lifecycle callbacks the approved rounds lead to (exits, enters, re-entries per state): a vetoed round must not change them (C04)
			if (!overlap) {
				unsigned char gotExit[HV_NS] = {0}, gotEnter[HV_NS] = {0}, gotReenter[HV_NS] = {0};
				for (int i = 0; i < x.n; ++i) { const Ev& e = x.tr[i]; if (e.kind == E_CB && e.a == 0) { if (e.method == (uint8_t) Method::EXIT) ++gotExit[e.state]; else if (e.method == (uint8_t) Method::ENTER) ++gotEnter[e.state]; else if (e.method == (uint8_t) Method::REENTER) ++gotReenter[e.state]; } }
				int bad = -1; for (int sidx = 0; sidx < HV_NS; ++sidx) { if (isRegion(sidx) && node(sidx).headless) continue; if (gotExit[sidx] != m.lifeExit[sidx] || gotEnter[sidx] != m.lifeEnter[sidx] || gotReenter[sidx] != m.lifeReenter[sidx]) { bad = sidx; break; } }
				st.cls("lifecycle_prediction_compared");
				if (bad >= 0) { st.cls("lifecycle_prediction_disagreement");
					bool vetoed = false; for (auto& r : rs) if (r.cancelled) vetoed = true;
					if (vetoed) { std::snprintf(buf, sizeof buf, "a vetoed round changed how the approved transitions are applied: state %d received exit x%d enter x%d reenter x%d, the approved rounds alone lead to exit x%d enter x%d reenter x%d (%s, step %u)", bad, gotExit[bad], gotEnter[bad], gotReenter[bad], m.lifeExit[bad], m.lifeEnter[bad], m.lifeReenter[bad], what, S.stepNo); S.violation("C04", buf); } }
			} }
	}
	judgeHistory(in, what, rs, wasActive);
	bool unrecordedSchedule = false; // schedule requests apply regardless of a veto but only approved rounds are recorded
	for (auto& r : rs) if (r.cancelled) for (auto& p : r.pend) if (p.type == T_SCHEDULE) unrecordedSchedule = true;
	if (!rs.empty()) for (auto& p : rs.back().issued) { int t = p.type, d = p.dest; saneRequest(t, d); if (t == T_SCHEDULE) unrecordedSchedule = true; }
	if (rs.empty()) for (auto& p : firstExpected) if (p.type == T_SCHEDULE) unrecordedSchedule = true;
	replicaFollow(in, what, rs.size() <= 1 && !hasSchedule && !(rs.size() == 1 && !rs[0].issued.empty()), unrecordedSchedule);
	m.cfg = lib; in.modelValid = true; // resynchronise (keeps exploring behind a disagreement)
	m.clearReq();
}

//------------------------------------------------------------------------------

static void dumpTrace(const Ctx& x) {
	static const char* K[] = {"cb", "log.method", "log.transition", "log.task", "log.plan", "log.cancel", "log.select", "log.utility", "log.random", "act.req", "act.cancel", "act.succeed", "act.fail", "act.consume", "act.plan", "ROUND", "pend", "rng", "cur", "API"};
	for (int i = 0; i < x.n; ++i) { const Ev& e = x.tr[i]; std::printf("   [%d] %s %s state=%d a=%d b=%d tag=%x f=%g\n", i, K[e.kind], (e.kind == E_CB || e.kind == E_LOG_METHOD) ? MN[e.method] : "", e.state, e.a, e.b, e.tag, (double) e.f); }
}

void Walker::step(const Op& o, size_t index) {
	if (o.kind == OP_CHURN) { // a long run of plain immediate transitions between two destinations: whatever only shows after more than 128 steps
		// (saturating activity counters, wrap-arounds, slow leaks); every one of them is a normal, fully judged step
		const int k = 131 + o.a2 % 8; Op q{}; q.kind = OP_REQUEST; q.flags = 1; q.a0 = T_CHANGE; q.envSeed = o.envSeed; q.rndSel = o.rndSel; for (auto& e : q.script) { e.action = A_NONE; e.used = false; }
		for (int i = 0; i < k && S.failure.empty(); ++i) { q.a1 = (i & 1) ? o.a1 : o.a0; step(q, index); }
		st.cls("op_churn"); return; }
	Inst& in = I(); Ctx& x = in.ctx; Instance& f = *in.fsm;
	++S.stepNo; S.curOp = index; S.lifeAcc = 1469598103934665603ull + index;
	struct LifeNote { Session& S; size_t i; ~LifeNote() { if (S.stepLife.size() <= i) S.stepLife.resize(i + 1, 0); S.stepLife[i] = S.lifeAcc; } } lifeNote{S, index};
	x.beginStep(S.stepNo);
	setEnv(x, o.envSeed, o.rndSel, S.replica);
	x.push(E_API, 0, -1, (int) index, o.kind);
	char what[64]; std::snprintf(what, sizeof what, "%s", OPN[o.kind]);
	const bool needOn = !(o.kind == OP_ENTER_EXIT || o.kind == OP_SAVE_LOAD || o.kind == OP_SWITCH || o.kind == OP_LOGGER);
	if (needOn && !in.on) { st.cls("ops_skipped_inactive"); return; }
	Cfg before = in.on ? readCfg(f) : Cfg{};
	bool wasActive[HV_NS]; for (int s = 0; s < HV_NS; ++s) wasActive[s] = in.on && f.isActive((StateID) s);
	st.cls(std::string("op_") + OPN[o.kind]);
	switch (o.kind) {
	case OP_UPDATE: { installScript(in, o); in.outstandingMarks = false; in.inUpdateOrReact = true;
		OrderModel om(before, x); om.phase(Method::PRE_UPDATE, true, true, false); om.phase(Method::UPDATE, true, true, false); om.phase(Method::POST_UPDATE, false, false, false);
		std::vector<std::vector<PTask>> plansBefore; for (int r = 0; r < HV_REGION_COUNT; ++r) plansBefore.push_back(readPlan(in, r)); std::memcpy(in.markS0, in.markS, sizeof in.markS); std::memcpy(in.markF0, in.markF, sizeof in.markF); std::memcpy(in.planExists0, in.planExists, sizeof in.planExists);
		LIB(f.update()); afterCall(in, what, true); in.inUpdateOrReact = false; judgeOrder(in, om, what); judgePlans(in, plansBefore, wasActive, what); judgeProcessing(in, what, before, wasActive); break; }
	case OP_REACT_A: { installScript(in, o); in.outstandingMarks = false; in.inUpdateOrReact = true;
		OrderModel om(before, x); om.phase(Method::PRE_REACT, !BOTTOMUP, true, true); om.phase(Method::REACT, !BOTTOMUP, true, true); om.phase(Method::POST_REACT, BOTTOMUP, false, true);
		std::vector<std::vector<PTask>> plansBefore; for (int r = 0; r < HV_REGION_COUNT; ++r) plansBefore.push_back(readPlan(in, r)); std::memcpy(in.markS0, in.markS, sizeof in.markS); std::memcpy(in.markF0, in.markF, sizeof in.markF); std::memcpy(in.planExists0, in.planExists, sizeof in.planExists);
		LIB(f.react(EvA{(int) o.a0})); afterCall(in, what, true); in.inUpdateOrReact = false; judgeOrder(in, om, what); judgePlans(in, plansBefore, wasActive, what); judgeProcessing(in, what, before, wasActive); break; }
	case OP_REACT_B: { installScript(in, o); in.outstandingMarks = false; in.inUpdateOrReact = true;
		OrderModel om(before, x); // an event no state handles reaches only the library's default handlers: no user callback at all
		std::vector<std::vector<PTask>> plansBefore; for (int r = 0; r < HV_REGION_COUNT; ++r) plansBefore.push_back(readPlan(in, r)); std::memcpy(in.markS0, in.markS, sizeof in.markS); std::memcpy(in.markF0, in.markF, sizeof in.markF); std::memcpy(in.planExists0, in.planExists, sizeof in.planExists);
		LIB(f.react(EvB{(int) o.a0})); afterCall(in, what, true); in.inUpdateOrReact = false; judgeOrder(in, om, what); judgePlans(in, plansBefore, wasActive, what); judgeProcessing(in, what, before, wasActive); break; }
	case OP_QUERY: case OP_QUERY_B: {
		installScript(in, o);
		OrderModel om(before, x); if (o.kind == OP_QUERY) om.phase(Method::QUERY, !BOTTOMUP, false, true);
		if (o.kind == OP_QUERY) { EvA e{(int) o.a0}; LIB(const_cast<const Instance&>(f).query(e)); } else { EvB e{(int) o.a0}; LIB(const_cast<const Instance&>(f).query(e)); }
		afterCall(in, what, true); judgeOrder(in, om, what);
		const Cfg after = readCfg(f);
		if (!after.sameActive(before) || !after.sameResumable(before)) S.violation("C05", "query() changed the configuration");
		for (int i = 0; i < x.n; ++i) if (x.tr[i].kind == E_CB && x.tr[i].method != (uint8_t) Method::QUERY) { S.violation("C05", std::string("query() invoked ") + MN[x.tr[i].method]); break; }
		break; }
	case OP_REQUEST: {
		const bool immediate = (o.flags & 1) && (o.a0 % 7) != 6;
		if (immediate) installScript(in, o);
		std::snprintf(what, sizeof what, "%s%s(%d)", immediate ? "immediate " : "", TTN[o.a0 % 7], o.a1 % HV_NS);
		apiRequest(in, o.a0, o.a1, immediate, (o.flags & 2) != 0, [&] {
			afterCall(in, what, true);
			if (immediate) judgeProcessing(in, what, before, wasActive);
			else { for (int i = 0; i < x.n; ++i) if (x.tr[i].kind == E_CB) { S.violation("C02", std::string("queueing a request invoked ") + MN[x.tr[i].method]); break; }
				   const Cfg after = readCfg(f); if (!after.sameActive(before) || !after.sameResumable(before)) S.violation("C02", "queueing a request changed the configuration"); }
		});
		break; }
	case OP_BATCH: {
		const int n = 2 + o.a2 % 5;
		for (int k = 0; k < n; ++k) { const uint32_t h = mix(o.a0 * 256u + o.a1, (uint32_t) k); apiRequest(in, (int) (h % 7), (int) ((h >> 4) % HV_NS), false, ((h >> 12) & 1) != 0, [] {}); }
		afterCall(in, what, true);
		break; }
	case OP_SUCCEED: case OP_FAIL: { // only active states report progress
		const StateID t = (StateID) (1 + o.a1 % (HV_NS - 1));
		if (!f.isActive(t)) { st.cls("ops_skipped_mark_on_inactive_state"); break; }
		if (o.kind == OP_SUCCEED) { f.succeed(t); in.markS[t] = true; } else { f.fail(t); in.markF[t] = true; }
		in.outstandingMarks = true;
		afterCall(in, what, true); break; }
	case OP_PLAN_APPEND: { in.plansUsed = true; planAppend(f, x, o.a0, o.a1, o.a2, o.a2 >> 3, (o.flags & 2) != 0); for (int i = 0; i < x.n; ++i) if (x.tr[i].kind == E_ACT_PLAN && x.tr[i].f > 0.5f) in.planExists[x.tr[i].a] = true; afterCall(in, what, true); break; }
	case OP_PLAN_CLEAR: f.plan((RegionID) (o.a0 % HV_REGION_COUNT)).clear(); in.clearMarksOfRegion(o.a0 % HV_REGION_COUNT); afterCall(in, what, true); break;
	case OP_PLAN_REMOVE: { auto p = f.plan((RegionID) (o.a0 % HV_REGION_COUNT)); int k = 0; for (auto it = p.begin(); it; ++it, ++k) if ((o.a1 >> (k % 8)) & 1) it.remove(); afterCall(in, what, true); break; }
	case OP_RESET: {
		LIB(f.reset()); afterCall(in, what, true);
		Model fresh; fresh.env = Env{x.sel, x.util, x.rank, x.rnd, 0}; fresh.initial();
		const Cfg lib = readCfg(f);
		if (!fresh.randomNone && !(RNG_BUILTIN && fresh.usedRandom) && (!lib.sameActive(fresh.cfg) || !lib.sameResumable(fresh.cfg))) S.violation("C02", "reset() did not re-activate the machine as its first activation would: library " + lib.str() + " prescribed " + fresh.cfg.str());
		in.model.cfg = lib; ++S.cfgChanges;
		if (S.replica && S.inst[1]->on) { Inst& b = *S.inst[1]; b.ctx.beginStep(S.stepNo); std::memcpy(b.ctx.sel, x.sel, sizeof x.sel); std::memcpy(b.ctx.util, x.util, sizeof x.util); std::memcpy(b.ctx.rank, x.rank, sizeof x.rank); std::memcpy(b.ctx.rnd, x.rnd, sizeof x.rnd);
			b.fsm->reset(); afterCall(b, "reset (replica)", true); b.model.cfg = readCfg(*b.fsm); enteredMatchesActive(b, "reset (replica)"); }
		break; }
	case OP_ENTER_EXIT:
		if (!MANUAL) break;
#ifdef HV_MANUAL
		if (in.on) { LIB(f.exit()); in.on = false; afterCall(in, "exit()", false); in.queued.clear(); in.queuedTags.clear(); in.model.off(); in.clearPlanBook();
			for (int s = 0; s < HV_NS; ++s) if (in.entered[s]) { char b[120]; std::snprintf(b, sizeof b, "state %d still entered after exit() returned", s); S.violation("C03", b); in.entered[s] = false; } }
		else { installScript(in, o); x.initialActivation = true; LIB(f.enter()); x.initialActivation = false; in.on = true; afterCall(in, "enter()", true); firstActivation(in); }
		if (S.replica) { Inst& b = *S.inst[1]; b.ctx.beginStep(S.stepNo); std::memcpy(b.ctx.sel, x.sel, sizeof x.sel); std::memcpy(b.ctx.util, x.util, sizeof x.util); std::memcpy(b.ctx.rank, x.rank, sizeof x.rank); std::memcpy(b.ctx.rnd, x.rnd, sizeof x.rnd);
			if (!in.on && b.on) { b.fsm->exit(); b.on = false; afterCall(b, "exit() (replica)", false); for (auto& e : b.entered) e = false; b.model.off(); }
			else if (in.on && !b.on) {
				const auto& prev = f.previousTransitions(); const bool viaReplay = prev.count() > 0;
				bool fellBack = false;
				b.ctx.initialActivation = true; bool ok = true; if (viaReplay) LIB(ok = b.fsm->replayEnter(prev)); else LIB(b.fsm->enter());
				if (viaReplay && !ok && !b.fsm->isActive((StateID) 0)) { // F32: a recorded activation whose net effect is the default configuration is refused
					Model fresh; fresh.env = Env{x.sel, x.util, x.rank, x.rnd, 0}; fresh.initial();
					if (readCfg(f).sameActive(fresh.cfg) && S.known("F32")) { hv::breaks() = hv::BreakLatch{}; b.ctx.beginStep(S.stepNo); LIB(b.fsm->enter()); ok = true; fellBack = true; st.cls("replay_enter_refused_default_history"); } }
				b.ctx.initialActivation = false; b.on = b.fsm->isActive((StateID) 0);
				if (!b.on) { S.violation("C09", "replayEnter() refused the authority's recorded activation and left the replica inactive"); return; }
				afterCall(b, viaReplay ? "replayEnter() (replica)" : "enter() (replica)", true);
				for (int s2 = 0; s2 < HV_NS; ++s2) b.entered[s2] = false; lifecycle(b, "replica activation"); b.model.cfg = readCfg(*b.fsm); b.queued.clear(); b.queuedTags.clear(); enteredMatchesActive(b, "replica activation");
				if (viaReplay && !fellBack) { st.cls("replay_enter"); ++S.replays;
					if (!ok) S.violation("C09", "replayEnter() refused the authority's recorded activation");
					for (int i = 0; i < b.ctx.n; ++i) if (isGuard(b.ctx.tr[i])) { S.violation("C09", "replayEnter() consulted a guard"); break; }
					const Cfg ca = readCfg(f), cb = readCfg(*b.fsm);
					if (!ca.sameActive(cb)) S.violation("C09", "after replayEnter() the replica's active configuration " + cb.str() + " differs from the authority's " + ca.str());
					const auto& pb = b.fsm->previousTransitions(); bool same = pb.count() == prev.count(); for (unsigned i = 0; same && i < pb.count(); ++i) same = pb[i].type == prev[i].type && pb[i].destination == prev[i].destination;
					if (!same) { char bb[200]; std::snprintf(bb, sizeof bb, "after replayEnter() of %u recorded transitions the replica's previousTransitions() holds %u entries (or other ones)", (unsigned) prev.count(), (unsigned) pb.count()); S.violation("C09", bb); }
				}
				{ const Cfg ca = readCfg(f), cb = readCfg(*b.fsm); // schedule requests issued by entry guards are applied but never recorded: resynchronise
				  if (!ca.sameActive(cb) || !ca.sameResumable(cb)) { if (!viaReplay && !ca.sameActive(cb)) S.violation("C09", "two identically prepared instances activated differently"); Instance::SerialBuffer buf2; f.save(buf2); b.ctx.beginStep(S.stepNo); b.fsm->load(buf2); lifecycle(b, "resync"); b.model.cfg = readCfg(*b.fsm); enteredMatchesActive(b, "resync"); st.cls("replica_resync"); } } } }
#endif
		break;
	case OP_SWITCH: if (S.inst[1] && !S.replica) S.cur ^= 1; break;
	case OP_REPLAY: { // an arbitrary (possibly over-long) history replayed onto this instance: no guards, must stay well-formed
		if (S.replica) break;
		std::vector<M::Transition> v; const int n = 1 + o.a2 % 48;
		for (int k = 0; k < n; ++k) { const uint32_t h = mix(o.a0 * 256u + o.a1, (uint32_t) k + 5u); int t = (int) (h % 7), d = (int) ((h >> 4) % HV_NS); saneRequest(t, d); v.push_back(M::Transition{(StateID) d, (TransitionType) t}); }
		{ bool anyTransition = false; for (auto& t : v) if (t.type != TransitionType::SCHEDULE) anyTransition = true; if (!anyTransition) v[0] = M::Transition{(StateID) (1 % HV_NS), TransitionType::CHANGE}; } // a recorded history always holds a transition
		for (auto& t : v) if (t.type != TransitionType::SCHEDULE && t.destination > 0 && node(t.destination).kind != LEAF) { bool onlyOrtho = true; for (int c = node(t.destination).parent; c >= 0; c = node(c).parent) if (node(c).kind != ORTHO) onlyOrtho = false; if (onlyOrtho) in.degenerateReplay = true; }
		in.overlongReplay = n > HV_COMPO_COUNT * HV_SUBST_LIMIT;
		bool ok = false; LIB(ok = f.replayTransitions(&v[0], (hfsm2::Short) n)); (void) ok;
		afterCall(in, what, true); in.overlongReplay = false; in.degenerateReplay = false;
		for (int i = 0; i < x.n; ++i) if (isGuard(x.tr[i])) { S.violation("C09", "replayTransitions() consulted a guard"); break; }
		in.model.cfg = readCfg(f); st.cls("replay_of_generated_history"); // (queued requests stay queued) if (n > HV_COMPO_COUNT * HV_SUBST_LIMIT) st.cls("replay_longer_than_history_capacity");
		++S.cfgChanges; break; }
	case OP_COPY_DROP: { // C11: keep using a copy after its original is gone (poisoned for ASan). Manual activation only (a destructor that exits would
		// run callbacks for the original); the built-in generator is known finding F4 and excluded
		if (!MANUAL || RNG_BUILTIN || in.original || S.replica) break;
		in.switchToCopy((uint8_t) o.a0); in.dropOriginal(); st.cls("copy_used_after_original_destroyed"); break; }
	case OP_SAVE_LOAD: if (S.inst[1] && !S.replica) saveLoad(in, *S.inst[S.cur ^ 1]); break;
	case OP_LOGGER: if (!S.forceNoLogger) { in.loggerOn = !in.loggerOn; f.attachLogger(in.loggerOn ? &in.logger : nullptr); st.cls("logger_toggled"); } break;
	default: break;
	}
	if (in.on) enteredMatchesActive(in, what);
	if (hv::opts().extra == 1) { std::printf("-- step %u %s\n", S.stepNo, what); dumpTrace(x); }
}



//------------------------------------------------------------------------------

// C04 "a vetoed round changes nothing", as a metamorphic relation that needs no model: when every round after the last approved one was vetoed,
// the step must end exactly as the same step in which those rounds never take place. The twin run drops the script entries that issued the
// requests leading to the vetoed tail (guards of the last approved round) and the entries that fired inside the tail.
void Walker::planTwin(Inst& in, const std::vector<Round>& rs) {
	Ctx& x = in.ctx;
	if (rs.size() < 2) return;
	int L = -1; for (size_t k = 0; k < rs.size(); ++k) if (!rs[k].cancelled) L = (int) k;
	if (L < 0 || L == (int) rs.size() - 1) return;
	st.cls("veto_twin_candidates");
	if (!rs.back().issued.empty()) return;                       // requests left behind by the last round: processed silently or by the next step
	for (size_t k = (size_t) L; k < rs.size(); ++k) { for (auto& q : rs[k].issued) if (q.type == T_SCHEDULE) return; if ((int) k > L) for (auto& q : rs[k].pend) if (q.type == T_SCHEDULE) return; } // scheduling applies regardless
	const int tailBegin = rs[L + 1].firstEv; int tailEnd = x.n;
	for (int i = rs.back().firstEv; i < x.n; ++i) if (isLifecycle(x.tr[i])) { tailEnd = i; break; }
	unsigned mask = 0;
	for (int i = 0; i < x.nscript; ++i) { const ScriptEntry& e = x.script[i]; if (!e.used || e.firedAt < 0) continue;
		const bool pure = e.action == A_REQ || e.action == A_CANCEL || e.action == A_BURST;
		if (e.firedAt >= tailBegin && e.firedAt < tailEnd) { if (!pure) return; mask |= 1u << e.idx; }
		else if (e.firedAt >= rs[L].firstEv && e.firedAt < tailBegin && (e.action == A_REQ || e.action == A_BURST)) mask |= 1u << e.idx; }
	if (!mask) return;
	if (S.suppressOut.size() <= S.curOp) S.suppressOut.resize(S.curOp + 1, 0);
	S.suppressOut[S.curOp] = (uint8_t) mask; ++S.twinSteps; st.cls("veto_twin_steps_planned");
}

void Walker::judgeOrder(Inst& in, const OrderModel& om, const char* what) {
	Ctx& x = in.ctx; if (x.overflow) return;
	std::vector<OrderModel::Rec> got;
	for (int i = 0; i < x.n; ++i) { const Ev& e = x.tr[i]; if (e.kind != E_CB) continue;
		const Method m = (Method) e.method;
		if (m == Method::PRE_UPDATE || m == Method::UPDATE || m == Method::POST_UPDATE || m == Method::PRE_REACT || m == Method::REACT || m == Method::POST_REACT || m == Method::QUERY) got.push_back(OrderModel::Rec{e.state, e.method, e.a}); }
	bool same = got.size() == om.out.size();
	for (size_t i = 0; same && i < got.size(); ++i) same = got[i].s == om.out[i].s && got[i].m == om.out[i].m && got[i].inj == om.out[i].inj;
	bool consumedSomewhere = false, consumedInOrtho = false, injActive = false;
	for (auto& r : om.out) if (r.inj) injActive = true;
	for (int i = 0; i < x.n; ++i) if (x.tr[i].kind == E_ACT_CONSUME) { consumedSomewhere = true; for (int c = node(x.tr[i].state).parent; c >= 0; c = node(c).parent) if (node(c).kind == ORTHO) consumedInOrtho = true; if (isRegion(x.tr[i].state)) consumedInOrtho = true; }
	if (consumedSomewhere) st.cls("order_steps_with_consumption"); if (consumedInOrtho) st.cls("order_consumed_in_orthogonal_or_at_head"); if (injActive) st.cls("order_steps_with_injected_handler");
	if (consumedInOrtho || injActive) ++S.orderNontrivial;
	st.cls("order_steps_compared");
	if (!same) {
		std::ostringstream o; o << "callback order of " << what << " (step " << S.stepNo << ") differs: library";
		for (auto& r : got) o << " " << r.s << "." << MN[r.m] << (r.inj ? "(inj)" : "");
		o << " | documented";
		for (auto& r : om.out) o << " " << r.s << "." << MN[r.m] << (r.inj ? "(inj)" : "");
		S.violation("C05", o.str());
	}
}

//------------------------------------------------------------------------------
// C09 / C13 / C14 parts that need the rounds of the step

void Walker::judgeHistory(Inst& in, const char* what, const std::vector<Round>& rs, const bool wasActive[HV_NS]) {
	Ctx& x = in.ctx; Instance& f = *in.fsm; char buf[500];
	std::vector<Req> expect; std::vector<uint32_t> etags; int approved = 0;
	for (auto& r : rs) if (!r.cancelled) { ++approved; for (size_t i = 0; i < r.pend.size(); ++i) { expect.push_back(r.pend[i]); etags.push_back(r.tags[i]); } }
	const auto& prev = f.previousTransitions();
	// A request whose destination is a region without composite ancestor alters nothing but orthogonal request marks: its round is
	// approved (and recorded) without any guard being reached, so the trace shows no round for it.
	auto degenerate = [](const Req& r) { if (r.type == T_SCHEDULE) return true; if (r.dest <= 0) return false; for (int c = node(r.dest).parent; c >= 0; c = node(c).parent) if (node(c).kind != ORTHO) return false; return true; };
	if (prev.count() != expect.size()) {
		std::vector<Req> extra; std::vector<uint32_t> extraTags;
		if (rs.empty()) { extra = in.lastFirstExpected; extraTags = in.lastFirstTags; }
		else if ((int) rs.size() < HV_SUBST_LIMIT) for (int i = rs.back().firstEv; i <= rs.back().lastEv; ++i) if (x.tr[i].kind == E_ACT_REQ && (int) extra.size() < HV_COMPO_COUNT) { Req q{x.tr[i].a, x.tr[i].b}; extra.push_back(q); extraTags.push_back(x.tr[i].tag); }
		bool allDegenerate = !extra.empty(), anyTransition = false; for (auto& r : extra) { if (!degenerate(r)) allDegenerate = false; if (r.type != T_SCHEDULE) anyTransition = true; }
		if (allDegenerate && anyTransition && prev.count() == expect.size() + extra.size()) { st.cls("history_guardless_round"); for (size_t i = 0; i < extra.size(); ++i) { expect.push_back(extra[i]); etags.push_back(extraTags[i]); } ++approved; }
	}
	bool same = prev.count() == expect.size();
	for (unsigned i = 0; same && i < prev.count(); ++i) same = (int) prev[i].type == expect[i].type && (int) prev[i].destination == expect[i].dest;
	// requests issued by plan tasks are only visible through the logger: with the logger detached and plans in play a guard-less round cannot be told
	if (!same && !in.loggerOn && in.plansUsed && rs.empty()) { st.cls("history_steps_not_observable_logger_off"); same = true; expect.clear(); etags.clear(); for (unsigned i = 0; i < prev.count(); ++i) { expect.push_back(Req{(int) prev[i].type, (int) prev[i].destination}); etags.push_back(tagOf(prev[i])); } }
	if (!same) {
		std::ostringstream o; o << "previousTransitions() after " << what << " (step " << S.stepNo << ") holds";
		for (unsigned i = 0; i < prev.count(); ++i) o << " " << TTN[(int) prev[i].type % 7] << "->" << (int) prev[i].destination;
		o << " but the approved rounds were"; for (auto& p : expect) o << " " << TTN[p.type] << "->" << p.dest; o << " (" << rs.size() << " rounds)";
		S.violation("C09", o.str());
	} else {
		if (expect.size() >= 2) st.cls("history_steps_with_2plus_transitions");
		for (unsigned i = 0; i < prev.count(); ++i) if (tagOf(prev[i]) != etags[i] && etags[i] != 0xFFFFFFFEu) { std::snprintf(buf, sizeof buf, "previousTransitions()[%u] (%s -> %d) carries payload tag %x, it was requested with %x (%s, step %u)", i, TTN[expect[i].type], expect[i].dest, tagOf(prev[i]), etags[i], what, S.stepNo); S.violation("C14", buf); }
#if HV_PAYLOAD != 0
		for (unsigned i = 0; i < prev.count(); ++i) if (prev[i].payload() && (reinterpret_cast<uintptr_t>(prev[i].payload()) % alignof(Payload)) != 0) S.violation("C14", "payload storage is not aligned for the payload type");
#endif
	}
	// lastTransitionTo: null or an entry of the array
	for (int s = 0; s < HV_NS; ++s) {
		const auto* lt = f.lastTransitionTo((StateID) s);
		if (lt && !(prev.count() && lt >= &prev[0] && lt <= &prev[prev.count() - 1])) { std::snprintf(buf, sizeof buf, "lastTransitionTo(%d) points outside previousTransitions() (%s, step %u)", s, what, S.stepNo); S.violation("C09", buf); S.violation("C11", buf); }
	}
	const bool single = approved == 1 && expect.size() == 1 && expect[0].type != T_SCHEDULE && same;
	if (single) {
		st.cls("history_single_request_steps");
		// states on the destination path that the request activated are pinned to it
		for (int c = expect[0].dest; c > 0; c = node(c).parent) {
			if (wasActive[c] || !f.isActive((StateID) c)) continue;
			const auto* lt = f.lastTransitionTo((StateID) c);
			// F15: requests issued by guards that do not alter the requested configuration are applied without a round and re-pin the states
			if (lt != &prev[0] && !rs.empty() && !rs.back().issued.empty() && S.known("F15")) continue;
			// F30: a vetoed round wipes the pins of the rounds approved before it
			{ bool vetoAfterApproval = false, seenApproved = false; for (auto& r : rs) { if (!r.cancelled) seenApproved = true; else if (seenApproved) vetoAfterApproval = true; }
			  if (lt == nullptr && vetoAfterApproval && S.known("F30")) continue; }
			if (lt != &prev[0]) { std::snprintf(buf, sizeof buf, "state %d was activated by the single approved request %s->%d but lastTransitionTo(%d) is %s (%s, step %u)", c, TTN[expect[0].type], expect[0].dest, c, lt ? "another entry" : "null", what, S.stepNo); S.violation("C09", buf); }
			else if (tagOf(*lt) != etags[0]) { std::snprintf(buf, sizeof buf, "lastTransitionTo(%d) carries payload tag %x, requested with %x (%s, step %u)", c, tagOf(*lt), etags[0], what, S.stepNo); S.violation("C14", buf); }
		}
	}
	// C14: what the lifecycle callbacks saw in currentTransitions()
	if (x.observePayload) {
		uint32_t h = 2166136261u; for (size_t i = 0; i < expect.size(); ++i) { h = (h ^ (uint32_t) expect[i].type) * 16777619u; h = (h ^ (uint32_t) expect[i].dest) * 16777619u; h = (h ^ etags[i]) * 16777619u; }
		bool mixed = false, with = false, without = false; for (auto t : etags) { if (t == NO_TAG) without = true; else with = true; } mixed = with && without;
		if (mixed) { st.cls("payload_steps_mixed_batch"); ++S.payloadMixed; } if (with) st.cls("payload_steps_with_payload");
		for (int i = 0; i < x.n; ++i) if (x.tr[i].kind == E_CUR && ((size_t) x.tr[i].a != expect.size() || x.tr[i].tag != h)) {
			std::snprintf(buf, sizeof buf, "a lifecycle callback saw currentTransitions() with %d entries (digest %x); the approved transitions are %zu (digest %x) (%s, step %u)", x.tr[i].a, x.tr[i].tag, expect.size(), h, what, S.stepNo); S.violation("C14", buf); break; }
	}
	// C13: pending queries evaluated by the guards of a single pending request
	if (x.observePending && rs.size() == 1 && !rs[0].cancelled && rs[0].pend.size() == 1 && rs[0].pend[0].type != T_SCHEDULE && x.npend == 1) {
		st.cls("pending_single_request_steps"); ++S.pendingJudged;
		bool touched[HV_NS] = {false}; for (int i = 0; i < x.n; ++i) if (isLifecycle(x.tr[i])) touched[x.tr[i].state] = true;
		for (int s = 0; s < HV_NS; ++s) {
			const bool now = f.isActive((StateID) s), ent = !wasActive[s] && now, ext = wasActive[s] && !now;
			const bool headless = isRegion(s) && node(s).headless;
			const uint8_t t = x.pendTable[0][s]; const bool pe = t & 1, px = t & 2, pc = t & 4;
			const char* bad = nullptr;
			if (ent) { if (!pe) bad = "is about to be entered but isPendingEnter is false"; else if (px) bad = "is about to be entered but isPendingExit is true"; else if (!pc) bad = "is about to be entered but isPendingChange is false"; }
			else if (ext) { if (!px) bad = "is about to be exited but isPendingExit is false"; else if (pe) bad = "is about to be exited but isPendingEnter is true"; else if (!pc) bad = "is about to be exited but isPendingChange is false"; }
			else if (!touched[s] && !(headless && wasActive[s])) { if (pe) bad = "is not affected but isPendingEnter is true"; else if (px) bad = "is not affected but isPendingExit is true"; else if (pc) bad = "is not affected but isPendingChange is true"; }
			if (bad) { std::snprintf(buf, sizeof buf, "guards of the single pending request %s->%d: state %d %s (%s, step %u)", TTN[rs[0].pend[0].type], rs[0].pend[0].dest, s, bad, what, S.stepNo); S.violation("C13", buf); break; }
		}
	}
}




//------------------------------------------------------------------------------
// C06: plans

std::vector<Walker::PTask> Walker::readPlan(Inst& in, int r) {
	std::vector<PTask> v; auto p = in.fsm->plan((RegionID) r);
	for (auto it = p.begin(); it; ++it) { v.push_back(PTask{(int) it->origin, (int) it->destination, (int) it->type, tagOf(*it)}); if (v.size() > 4096) break; }
	return v;
}

void Walker::judgePlans(Inst& in, const std::vector<std::vector<PTask>>& before, const bool wasActive[HV_NS], const char* what) {
	Ctx& x = in.ctx; char buf[500];
	in.planIssuedTags.clear();
	if (x.overflow || !in.loggerOn) { // plan-issued requests are observed through the logger
		int fr = x.n; for (int i = 0; i < x.n; ++i) if (x.tr[i].kind == E_ROUND) { fr = i; break; }
		for (int i = 0; i < fr; ++i) if (x.tr[i].kind == E_ACT_PLAN && x.tr[i].method != 255 && x.tr[i].f > 0.5f) in.planExists[x.tr[i].a] = true;
		for (int s = 0; s < HV_NS; ++s) in.markS[s] = in.markF[s] = false;
		for (int i = fr; i < x.n; ++i) { const Ev& e = x.tr[i]; if (e.kind == E_ACT_SUCCEED) in.markS[e.a] = true; if (e.kind == E_ACT_FAIL) in.markF[e.a] = true; if (e.kind == E_CB && e.method == (uint8_t) Method::EXIT && e.a == 0) in.markS[e.state] = in.markF[e.state] = false; }
		st.cls("plan_steps_not_observable"); return; }
	// ---- what happened in the update/react phases (before the first guard round)
	int firstRound = x.n; for (int i = 0; i < x.n; ++i) if (x.tr[i].kind == E_ROUND) { firstRound = i; break; }
	bool succ[HV_NS], failm[HV_NS]; for (int s = 0; s < HV_NS; ++s) { succ[s] = in.markS0[s] && wasActive[s]; failm[s] = in.markF0[s] && wasActive[s]; }
	bool stepSucc[HV_NS] = {false}, stepFail[HV_NS] = {false}; int reporters = 0, lastReporter = -1; bool anyRequest = false, anyPlanEdit = false;
	for (int i = 0; i < firstRound; ++i) { const Ev& e = x.tr[i];
		if (e.kind == E_ACT_SUCCEED) { succ[e.a] = true; if (!stepSucc[e.a] && !stepFail[e.a]) { ++reporters; lastReporter = e.a; } stepSucc[e.a] = true; }
		if (e.kind == E_ACT_FAIL) { failm[e.a] = true; if (!stepSucc[e.a] && !stepFail[e.a]) { ++reporters; lastReporter = e.a; } stepFail[e.a] = true; }
		if (e.kind == E_LOG_TASK && e.state >= 0 && e.state < HV_NS) { if (e.b == 0) succ[e.state] = true; else failm[e.state] = true; } // includes results passed on by planSucceeded/planFailed
		if (e.kind == E_ACT_REQ) anyRequest = true;
		if (e.kind == E_ACT_PLAN) anyPlanEdit = true; }
	// plan-issued requests: recorded transitions nobody scripted, on behalf of a region head
	struct Issued { int head, type, dest; int at; }; std::vector<Issued> issued;
	struct Status { int head; bool success; int at; }; std::vector<Status> statuses;
	for (int i = 0; i < firstRound; ++i) { const Ev& e = x.tr[i];
		if (e.kind == E_LOG_TRANSITION && !(i > 0 && x.tr[i - 1].kind == E_ACT_REQ)) issued.push_back(Issued{e.state, e.a, e.b, i});
		if (e.kind == E_CB && (e.method == (uint8_t) Method::PLAN_SUCCEEDED || e.method == (uint8_t) Method::PLAN_FAILED) && e.a == 0) statuses.push_back(Status{e.state, e.method == (uint8_t) Method::PLAN_SUCCEEDED, i}); }
	st.cls("plan_tasks_executed", issued.size()); st.cls("plan_status_callbacks", statuses.size());
	S.planEvents += (int) issued.size() + (int) statuses.size();
	// ---- safety: every execution is justified, happens once, removes its task
	bool workPlanExists[HV_REGION_COUNT > 0 ? HV_REGION_COUNT : 1] = {false}; for (int i = 0; i < firstRound; ++i) if (x.tr[i].kind == E_ACT_PLAN && x.tr[i].method != 255 && x.tr[i].f > 0.5f) workPlanExists[x.tr[i].a] = true;
	std::vector<std::vector<PTask>> work = before;   // tasks still in the plans as the step proceeds (appends by scripts are added when seen)
	{ size_t ii = 0;
	  bool cur[HV_NS]; for (int s2 = 0; s2 < HV_NS; ++s2) cur[s2] = in.markS0[s2] && wasActive[s2];   // success marks as they stand while the step proceeds
	  for (int i = 0; i < firstRound; ++i) { const Ev& e = x.tr[i];
		if (e.kind == E_ACT_SUCCEED) cur[e.a] = true;
		if (e.kind == E_LOG_TASK && e.b == 0 && e.state >= 0 && e.state < HV_NS) cur[e.state] = true;
		if (e.kind == E_ACT_PLAN && e.method != 255 && e.f > 0.5f) { work[e.a].push_back(PTask{e.state, e.b, e.method, e.tag == NO_TAG ? NO_TAG : e.tag}); in.planExists[e.a] = true; }
		if (e.kind == E_ACT_PLAN && e.method == 255) { work[e.a].clear(); if (e.a >= 0 && e.a < HV_REGION_COUNT) { const int head = regionHead(e.a); for (int s2 = head; s2 < head + node(head).size && s2 < HV_NS; ++s2) cur[s2] = false; } } // plan.clear() also wipes the marks of the region's states
		while (ii < issued.size() && issued[ii].at == i) {
			const Issued& q = issued[ii++];
			if (q.head < 0 || q.head >= HV_NS || !isRegion(q.head)) { in.planIssuedTags.push_back(0xFFFFFFFEu); std::snprintf(buf, sizeof buf, "a transition was requested on behalf of state %d, which is no region head, without anybody requesting it (%s, step %u)", q.head, what, S.stepNo); S.violation("C06", buf); continue; }
			const int r = node(q.head).region; auto& plan = work[r];
			// the first task, in order, with an active origin that succeeded and this destination, before any task with an inactive origin
			int found = -1; for (size_t k = 0; k < plan.size(); ++k) { if (!wasActive[plan[k].origin]) break; if (plan[k].dest == q.dest && cur[plan[k].origin]) { found = (int) k; break; } }
			in.planIssuedTags.push_back(found >= 0 ? plan[found].tag : 0xFFFFFFFEu);
			if (found < 0) { std::snprintf(buf, sizeof buf, "region %d requested %s->%d on behalf of its plan, but the plan holds no task to %d whose origin is active and succeeded (and that is not behind a task with an inactive origin) (%s, step %u)", q.head, TTN[q.type % 7], q.dest, q.dest, what, S.stepNo); S.violation("C06", buf); continue; }
			if (plan[found].type != q.type) { if (!(q.type == T_CHANGE && S.known("F12"))) { std::snprintf(buf, sizeof buf, "task %d->%d of kind %s was executed as %s (%s, step %u)", plan[found].origin, plan[found].dest, TTN[plan[found].type % 7], TTN[q.type % 7], what, S.stepNo); S.violation("C06", buf); } }
			if (plan[found].origin == plan[found].dest) cur[plan[found].origin] = false; // a cyclic task consumes the success it was waiting for
			plan.erase(plan.begin() + found); }
	  } }
	// the plans after the step = what remains (the library also empties a plan when it reports success)
	for (int r = 0; r < HV_REGION_COUNT; ++r) {
		std::vector<PTask> now = readPlan(in, r);
		bool lifecycleAfter = false; for (int i = firstRound; i < x.n; ++i) if (x.tr[i].kind == E_ACT_PLAN) lifecycleAfter = true; // plan edits from enter/exit/guards afterwards: not tracked here
		if (lifecycleAfter) continue;
		bool same = now.size() == work[r].size(); for (size_t k = 0; same && k < now.size(); ++k) same = now[k].origin == work[r][k].origin && now[k].dest == work[r][k].dest && now[k].type == work[r][k].type && now[k].tag == work[r][k].tag;
		if (!same && now.size() == work[r].size()) { std::snprintf(buf, sizeof buf, "plan of region %d holds %zu tasks after the step as expected, but a task differs from what was appended (origin, destination, kind or payload) (%s, step %u)", r, now.size(), what, S.stepNo); S.violation("C06", buf); }
		else if (!same) { std::snprintf(buf, sizeof buf, "plan of region %d holds %zu tasks after the step, %zu were expected to remain (executed tasks are removed exactly once, others stay) (%s, step %u)", r, now.size(), work[r].size(), what, S.stepNo); S.violation("C06", buf); }
	}
	// a failure reported in this step by a sub-state (directly, or passed on by the default planFailed of a nested plan-owning region) makes the
	// innermost plan-owning region around it fail: its tasks must not be executed and it must not report success
	{ auto owner = [&](int s0) { for (int c = node(s0).parent; c >= 0; c = node(c).parent) if (in.planExists0[node(c).region] || workPlanExists[node(c).region]) return c; return -1; };
	  for (int i = 0; i < firstRound; ++i) { const Ev& e = x.tr[i];
		if (!(e.kind == E_LOG_TASK && e.b == 1 && e.state > 0 && e.state < HV_NS && wasActive[e.state])) continue;
		// reported on behalf of another state (succeed(id)/fail(id) from a different callback): attribution is F13 territory
		if (i > 0 && x.tr[i - 1].kind == E_ACT_FAIL && x.tr[i - 1].state != x.tr[i - 1].a) continue;
		const int r = owner(e.state); if (r < 0 || !wasActive[r]) continue;
		// the same state also reported success in this step (e.g. an overridden planSucceeded that fails and then forwards to the default): which result
		// wins is not stated
		{ bool both = in.markS0[e.state]; for (int k = 0; k < firstRound && !both; ++k) { const Ev& q = x.tr[k]; if ((q.kind == E_ACT_SUCCEED && q.a == e.state) || (q.kind == E_LOG_TASK && q.b == 0 && q.state == e.state)) both = true; }
		  if (both) { st.cls("plan_failure_evidence_skipped_both_results"); continue; } }
		if (node(e.state).parent != r) continue; // only direct sub-states: the result of a nested region is what its head reports (its own mark wins over its sub-states')
		for (auto& q : issued) if (q.head == r && q.at > i) { std::snprintf(buf, sizeof buf, "region %d executed a plan task (%s->%d) in a step in which its sub-state %d reported failure (%s, step %u)", r, TTN[q.type % 7], q.dest, e.state, what, S.stepNo); S.violation("C06", buf); break; }
		for (auto& sc : statuses) if (sc.head == r && sc.success && sc.at > i) { std::snprintf(buf, sizeof buf, "region %d received planSucceeded in a step in which its sub-state %d reported failure (%s, step %u)", r, e.state, what, S.stepNo); S.violation("C06", buf); break; }
		st.cls("plan_failure_evidence_checked"); } }
	// status callbacks need a reason: some state reported the same result earlier in this step (or carried the mark into it)
	for (auto& sc : statuses) {
		bool reason = false;
		for (int i = 0; i < sc.at; ++i) { const Ev& e = x.tr[i]; if (e.kind == (sc.success ? E_ACT_SUCCEED : E_ACT_FAIL)) reason = true; if (e.kind == E_CB && e.method == (uint8_t) (sc.success ? Method::PLAN_SUCCEEDED : Method::PLAN_FAILED) && e.a == 0 && e.state != sc.head) reason = true; }
		for (int s = 0; s < HV_NS; ++s) if (wasActive[s] && (sc.success ? in.markS0[s] : in.markF0[s])) reason = true;
		if (!reason) { std::snprintf(buf, sizeof buf, "%s delivered to state %d although no state reported %s in this step (%s, step %u)", sc.success ? "planSucceeded" : "planFailed", sc.head, sc.success ? "success" : "failure", what, S.stepNo); S.violation("C06", buf); }
		if (!wasActive[sc.head]) { std::snprintf(buf, sizeof buf, "plan status delivered to inactive state %d", sc.head); S.violation("C06", buf); }
	}
	// ---- liveness under the statement's premises, literally: exactly one reporter s in the step, s is a sub-state (not the head) of a
	// plan-owning region r with no other plan-owning region between them, nothing else reported, no transition requested in the phases
	bool carried = false; for (int s = 0; s < HV_NS; ++s) if (wasActive[s] && (in.markS0[s] || in.markF0[s])) carried = true;
	// A second reporter does not touch the premises when it is a region head strictly above the plan-owning region and reported (itself) only from
	// postUpdate: sub-states are visited before their head there, so nothing below can inherit the report, and nested plans are serviced first.
	int benignAbove = -1;
	if (reporters == 2) {
		int two[2] = {-1, -1}; int n2 = 0; for (int s = 0; s < HV_NS && n2 < 2; ++s) if (stepSucc[s] || stepFail[s]) two[n2++] = s;
		auto onlyFromPostUpdate = [&](int X) { bool any = false; for (int i = 0; i < firstRound; ++i) if ((x.tr[i].kind == E_ACT_SUCCEED || x.tr[i].kind == E_ACT_FAIL) && x.tr[i].a == X) { if (x.tr[i].state != X) return false; Method pm = Method::NONE; for (int k = i - 1; k >= 0; --k) if (x.tr[k].kind == E_CB) { pm = (Method) x.tr[k].method; break; } if (pm != Method::POST_UPDATE) return false; any = true; } return any; };
		auto above = [&](int X, int s) { for (int c = node(s).parent; c >= 0; c = node(c).parent) if (c == X) return true; return false; };
		for (int k = 0; k < 2 && n2 == 2 && benignAbove < 0; ++k) { const int X = two[k], s0 = two[1 - k]; if (X > 0 && isRegion(X) && above(X, s0) && onlyFromPostUpdate(X)) { benignAbove = X; lastReporter = s0; } }
	}
	if ((reporters == 1 || benignAbove >= 0) && !anyRequest && !anyPlanEdit && !carried && in.loggerOn && wasActive[lastReporter]) {
		const int s0 = lastReporter; int r = -1;
		for (int c = node(s0).parent; c >= 0; c = node(c).parent) if (in.planExists0[node(c).region] || workPlanExists[node(c).region]) { r = c; break; } // plans that exist while the phases run (appends from guards / enter come later)
		if (benignAbove >= 0) { bool strictlyBelow = false; for (int c = r >= 0 ? node(r).parent : -1; c >= 0; c = node(c).parent) if (c == benignAbove) strictlyBelow = true; if (!strictlyBelow) r = -1; else st.cls("plan_liveness_steps_with_reporting_ancestor"); }
		// F13: the per-step status is one accumulator: a report made in a phase that visits sub-states before their head (postUpdate; preReact/react
		// with bottom-up reactions; postReact with top-down reactions) is inherited by the head, which then counts as having reported itself
		bool headAfterSubs = false;
		for (int i = 0; i < firstRound; ++i) if ((x.tr[i].kind == E_ACT_SUCCEED || x.tr[i].kind == E_ACT_FAIL) && x.tr[i].a == s0) { Method pm = Method::NONE; for (int k = i - 1; k >= 0; --k) if (x.tr[k].kind == E_CB) { pm = (Method) x.tr[k].method; break; }
			if (x.tr[i].state != s0) headAfterSubs = true; // reported on behalf of another state: attributed to the caller
			headAfterSubs = headAfterSubs || pm == Method::POST_UPDATE || ((pm == Method::PRE_REACT || pm == Method::REACT) && BOTTOMUP) || (pm == Method::POST_REACT && !BOTTOMUP) || pm == Method::PLAN_SUCCEEDED || pm == Method::PLAN_FAILED; }
		if (r >= 0 && wasActive[r] && headAfterSubs && hv::opts().isKnown("F13")) { st.cls("plan_liveness_steps_skipped_F13"); r = -1; }
		if (r >= 0 && wasActive[r]) {
			st.cls("plan_liveness_steps"); ++S.planLiveness;
			const auto& plan = before[node(r).region];
			if (stepFail[s0]) {
				if (!(isRegion(r) && node(r).headless)) { bool got = false; for (auto& sc : statuses) if (sc.head == r && !sc.success) got = true;
					if (!got) { std::snprintf(buf, sizeof buf, "sub-state %d of plan-owning region %d failed, nobody else reported, but the head did not receive planFailed (%s, step %u)", s0, r, what, S.stepNo); S.violation("C06", buf); } }
			} else if (plan.empty()) {
				if (!(isRegion(r) && node(r).headless)) { bool got = false; for (auto& sc : statuses) if (sc.head == r && sc.success) got = true;
					if (!got) { std::snprintf(buf, sizeof buf, "sub-state %d of region %d succeeded, its plan has no tasks left, but the head did not receive planSucceeded (%s, step %u)", s0, r, what, S.stepNo); S.violation("C06", buf); } }
			} else {
				for (size_t k = 0; k < plan.size(); ++k) { if (!wasActive[plan[k].origin]) break;
					if (plan[k].origin != s0) continue;
					bool got = false; for (auto& q : issued) if (q.head == r && q.dest == plan[k].dest) got = true;
					if (!got) { std::snprintf(buf, sizeof buf, "task %d->%d of region %d was not executed although its origin is active and succeeded in this step and nothing else happened (%s, step %u)", plan[k].origin, plan[k].dest, r, what, S.stepNo); S.violation("C06", buf); break; }
					if (plan[k].origin == plan[k].dest) break; // a cyclic task consumes the success
				}
			}
		}
	}
	// ---- marks never survive the step that consumed them: only marks set after the phases (guards, plan callbacks during processing) stay
	for (int s = 0; s < HV_NS; ++s) in.markS[s] = in.markF[s] = false;
	for (int i = firstRound; i < x.n; ++i) { const Ev& e = x.tr[i]; if (e.kind == E_ACT_SUCCEED) in.markS[e.a] = true; if (e.kind == E_ACT_FAIL) in.markF[e.a] = true;
		if (e.kind == E_CB && e.method == (uint8_t) Method::EXIT && e.a == 0) in.markS[e.state] = in.markF[e.state] = false; }
}

//------------------------------------------------------------------------------
// C16: logger records mirror callbacks and actions; structure report mirrors the configuration

void Walker::judgeLogger(Inst& in, const char* what) {
	Ctx& x = in.ctx; char buf[300];
	if (x.overflow) return;
	if (!in.loggerOn) { for (int i = 0; i < x.n; ++i) if (x.tr[i].kind >= E_LOG_METHOD && x.tr[i].kind <= E_LOG_RANDOM) { S.violation("C16", std::string("a record reached a detached logger during ") + what); break; } return; }
#ifdef HV_VERBOSE_LOG
	const bool verbose = true;
#else
	const bool verbose = false;
#endif
	int lastLog = -1; bool lastLogUsed = true;
	for (int i = 0; i < x.n; ++i) {
		const Ev& e = x.tr[i];
		switch (e.kind) {
		case E_LOG_METHOD:
			// an unanswered record is fine in verbose mode (every method of every state is logged) and for the react/query family
			// (the library cannot tell whether the state handles this event type)
			if (!lastLogUsed && !verbose) { const Ev& l = x.tr[lastLog]; const Method m = (Method) l.method;
				if (!(m == Method::PRE_REACT || m == Method::REACT || m == Method::POST_REACT || m == Method::QUERY)) { std::snprintf(buf, sizeof buf, "logger recorded %s of state %d but that callback was not invoked (%s, step %u)", MN[l.method], l.state, what, S.stepNo); S.violation("C16", buf); } }
			lastLog = i; lastLogUsed = false; S.recordKindMask |= 1u; break;
		case E_CB:
			if (lastLog < 0 || x.tr[lastLog].state != e.state || x.tr[lastLog].method != e.method) { std::snprintf(buf, sizeof buf, "%s of state %d was invoked without being recorded by the attached logger immediately before (%s, step %u)", MN[e.method], e.state, what, S.stepNo); S.violation("C16", buf); }
			lastLogUsed = true; break;
		case E_ACT_REQ: {
			const Ev* n = i + 1 < x.n ? &x.tr[i + 1] : nullptr; S.recordKindMask |= 2u;
			if (!n || n->kind != E_LOG_TRANSITION || n->state != e.state || n->a != e.a || n->b != e.b) { std::snprintf(buf, sizeof buf, "request %s->%d from %d was not recorded (or recorded with other ids) by the logger (%s, step %u)", TTN[e.a % 7], e.b, e.state, what, S.stepNo); S.violation("C16", buf); }
			break; }
		case E_LOG_TRANSITION: {
			const Ev* p = i > 0 ? &x.tr[i - 1] : nullptr;
			if (!(p && p->kind == E_ACT_REQ)) { // issued by a plan task on behalf of the region head
				if (!(in.plansUsed && e.state >= 0 && isRegion(e.state))) { std::snprintf(buf, sizeof buf, "logger recorded a transition %s->%d from %d that nobody requested (%s, step %u)", TTN[e.a % 7], e.b, e.state, what, S.stepNo); S.violation("C16", buf); } else S.recordKindMask |= 64u; }
			break; }
		case E_ACT_CANCEL: { const Ev* n = i + 1 < x.n ? &x.tr[i + 1] : nullptr; S.recordKindMask |= 4u;
			if (!n || n->kind != E_LOG_CANCEL || n->state != e.state) { std::snprintf(buf, sizeof buf, "cancelPendingTransitions() by state %d was not recorded by the logger (%s, step %u)", e.state, what, S.stepNo); S.violation("C16", buf); } break; }
		case E_LOG_CANCEL: if (!(i > 0 && x.tr[i - 1].kind == E_ACT_CANCEL)) S.violation("C16", "logger recorded a cancellation nobody issued"); break;
		case E_ACT_SUCCEED: case E_ACT_FAIL: { const Ev* n = i + 1 < x.n ? &x.tr[i + 1] : nullptr; S.recordKindMask |= 8u;
			if (!n || n->kind != E_LOG_TASK || n->state != e.a || n->b != (e.kind == E_ACT_SUCCEED ? 0 : 1)) { std::snprintf(buf, sizeof buf, "%s of state %d was not recorded (or recorded with other ids) by the logger (%s, step %u)", e.kind == E_ACT_SUCCEED ? "succeed()" : "fail()", e.a, what, S.stepNo); S.violation("C16", buf); } break; }
		case E_LOG_SELECT: { S.recordKindMask |= 16u; if (e.state >= 0 && e.state < HV_NS && !(isRegion(e.state) && node(e.state).headless) && e.a != (int) x.sel[e.state]) { std::snprintf(buf, sizeof buf, "logger recorded select resolution %d for region %d, select() returned %d (%s, step %u)", e.a, e.state, (int) x.sel[e.state], what, S.stepNo); S.violation("C16", buf); } break; }
		case E_LOG_UTILITY: case E_LOG_RANDOM: S.recordKindMask |= 32u; if (e.state < 0 || e.state >= HV_NS || !isRegion(e.state)) S.violation("C16", "utility/random resolution recorded for a state that is not a region"); break;
		case E_LOG_PLAN: { // followed by the head's planSucceeded / planFailed (unless the head is anonymous)
			S.recordKindMask |= 128u; break; }
		default: break;
		}
	}
	if (!lastLogUsed && !verbose && lastLog >= 0) { const Ev& l = x.tr[lastLog]; const Method m = (Method) l.method;
		if (!(m == Method::PRE_REACT || m == Method::REACT || m == Method::POST_REACT || m == Method::QUERY)) { std::snprintf(buf, sizeof buf, "logger recorded %s of state %d but that callback was not invoked (%s, step %u)", MN[l.method], l.state, what, S.stepNo); S.violation("C16", buf); } }
}

static const char* stateTypeName(int s) {
	switch (s) {
#define HV_TN(N) case N: return typeid(St<N>).name();
	HV_FOR_EACH_STATE(HV_TN)
#undef HV_TN
	default: return nullptr; }
}

void Walker::judgeReport(Inst& in, const char* what, bool on) {
	Instance& f = *in.fsm; char buf[300];
	const auto& str = f.structure(); const auto& act = f.activityHistory();
	if ((int) str.count() != HV_NS || (int) act.count() != HV_NS) { S.violation("C16", "structure()/activityHistory() do not have one entry per state"); return; }
	for (int s = 0; s < HV_NS; ++s) {
		const bool a = on && f.isActive((StateID) s);
		if (str[s].isActive != a) { std::snprintf(buf, sizeof buf, "after %s (step %u) structure()[%d].isActive is %d but isActive(%d) is %d", what, S.stepNo, s, (int) str[s].isActive, s, (int) a); S.violation("C16", buf); break; }
		const char* tn = stateTypeName(s);
		if ((tn == nullptr) != (str[s].name == nullptr) || (tn && std::strcmp(tn, str[s].name) != 0)) { std::snprintf(buf, sizeof buf, "structure()[%d] does not describe state %d (name %s)", s, s, str[s].name ? str[s].name : "(null)"); S.violation("C16", buf); break; }
	}
	// activity history: unchanged, or the saturating successor of the previous value for the state's current condition
	int8_t now[HV_NS]; for (int s = 0; s < HV_NS; ++s) now[s] = act[s];
	if (in.activityKnown) {
		bool updated = false; for (int s = 0; s < HV_NS; ++s) if (now[s] != in.activity[s]) updated = true;
		if (updated) { st.cls("report_updates");
			for (int s = 0; s < HV_NS; ++s) { if (isRegion(s) && node(s).headless) continue;
				const bool a = on && f.isActive((StateID) s); const int o = in.activity[s];
				const int expect = a ? (o < 0 ? 1 : (o < 127 ? o + 1 : o)) : (o > 0 ? -1 : (o > -128 ? o - 1 : o));
				if (now[s] != expect) { std::snprintf(buf, sizeof buf, "after %s (step %u) activityHistory()[%d] went from %d to %d; state is %s, expected %d", what, S.stepNo, s, o, (int) now[s], a ? "active" : "inactive", expect); S.violation("C16", buf); break; } } }
	}
	for (int s = 0; s < HV_NS; ++s) { if (isRegion(s) && node(s).headless) continue; const bool a = on && f.isActive((StateID) s); if (now[s] != 0 && (now[s] > 0) != a && in.activityKnown) { /* sign may lag when the report was not refreshed; (iii) covers isActive */ } }
	std::memcpy(in.activity, now, sizeof now); in.activityKnown = true;
}

//------------------------------------------------------------------------------
// C08: save(src) -> load(dst)

void Walker::saveLoad(Inst& src, Inst& dst) {
	if ((int) Instance::SerialBuffer::BIT_CAPACITY != HV_SERIAL_BITS) { char b[200]; std::snprintf(b, sizeof b, "SerialBuffer::BIT_CAPACITY is %d, the structure needs %d bits (1 + active bits + resumable bits)", (int) Instance::SerialBuffer::BIT_CAPACITY, HV_SERIAL_BITS); S.violation("C08", b); S.violation("C17", b); }
	struct Guarded { uint8_t pre[64]; Instance::SerialBuffer buf; uint8_t post[64]; };
	Guarded g, g2; std::memset(g.pre, 0xA5, 64); std::memset(g.post, 0x5A, 64); std::memcpy(&g2, &g, sizeof g);
	std::memset(g.buf.data(), 0xEE, Instance::SerialBuffer::BYTE_COUNT); std::memset(g2.buf.data(), 0x11, Instance::SerialBuffer::BYTE_COUNT);
	char buf[400];
	if (!MANUAL && !(src.on && dst.on)) return;
	const Cfg cs = src.on ? readCfg(*src.fsm) : Cfg{};
	const Cfg cdBefore = dst.on ? readCfg(*dst.fsm) : Cfg{};
	bool srcAct[HV_NS], srcRes[HV_NS], dstWas[HV_NS];
	for (int s = 0; s < HV_NS; ++s) { srcAct[s] = src.on && src.fsm->isActive((StateID) s); srcRes[s] = src.on && src.fsm->isResumable((StateID) s); dstWas[s] = dst.on && dst.fsm->isActive((StateID) s); }
	src.ctx.beginStep(S.stepNo);
	LIB(const_cast<const Instance&>(*src.fsm).save(g.buf));
	for (int i = 0; i < src.ctx.n; ++i) if (src.ctx.tr[i].kind == E_CB) { S.violation("C08", std::string("save() invoked ") + MN[src.ctx.tr[i].method]); break; }
	if (src.on) { const Cfg after = readCfg(*src.fsm); if (!after.sameActive(cs) || !after.sameResumable(cs)) S.violation("C08", "save() changed the saved instance"); }
	for (int i = 0; i < 64; ++i) if (g.pre[i] != 0xA5 || g.post[i] != 0x5A) { S.violation("C08", "save() wrote outside the serialization buffer"); break; }
	Ctx& x = dst.ctx; x.beginStep(S.stepNo);
	x.initialActivation = !dst.on;
	LIB(dst.fsm->load(g.buf));
	x.initialActivation = false;
	const bool dstOnBefore = dst.on;
	dst.on = src.on;
	++S.loads; st.cls("loads"); if (!cs.sameActive(cdBefore)) { st.cls("loads_into_a_different_configuration"); ++S.loadsDiffering; }
	if (!dstOnBefore || !src.on) st.cls("loads_involving_an_inactive_instance");
	afterCall(dst, "load()", dst.on);
	if (dst.on) {
		for (int s = 0; s < HV_NS; ++s) {
			if (dst.fsm->isActive((StateID) s) != srcAct[s]) { std::snprintf(buf, sizeof buf, "after load() isActive(%d) is %d in the loaded instance and %d in the saved one (step %u)", s, (int) !srcAct[s], (int) srcAct[s], S.stepNo); S.violation("C08", buf); break; }
			if (dst.fsm->isResumable((StateID) s) != srcRes[s]) { std::snprintf(buf, sizeof buf, "after load() isResumable(%d) is %d in the loaded instance and %d in the saved one (step %u)", s, (int) !srcRes[s], (int) srcRes[s], S.stepNo); S.violation("C08", buf); break; }
		}
	}
	// exit for every state that stops being active, enter for every state that becomes active - exactly once
	int enters[HV_NS] = {0}, exits[HV_NS] = {0};
	for (int i = 0; i < x.n; ++i) { const Ev& e = x.tr[i]; if (e.kind == E_CB && e.a == 0) { if (e.method == (uint8_t) Method::ENTER) ++enters[e.state]; if (e.method == (uint8_t) Method::EXIT) ++exits[e.state]; if (isGuard(e)) S.violation("C08", "load() consulted a guard"); } }
	for (int s = 0; s < HV_NS; ++s) { if (isRegion(s) && node(s).headless) continue;
		if (dstWas[s] && !srcAct[s] && exits[s] != 1) { std::snprintf(buf, sizeof buf, "load(): state %d stops being active but received exit %d times (step %u)", s, exits[s], S.stepNo); S.violation("C08", buf); }
		if (!dstWas[s] && srcAct[s] && enters[s] != 1) { std::snprintf(buf, sizeof buf, "load(): state %d becomes active but received enter %d times (step %u)", s, enters[s], S.stepNo); S.violation("C08", buf); } }
	const_cast<const Instance&>(*dst.fsm).save(g2.buf);
	if (std::memcmp(g.buf.data(), g2.buf.data(), Instance::SerialBuffer::BYTE_COUNT) != 0) { std::snprintf(buf, sizeof buf, "saving the loaded instance gives a different buffer than the one it was loaded from (step %u)", S.stepNo); S.violation("C08", buf); }
	for (int i = 0; i < 64; ++i) if (g2.pre[i] != 0xA5 || g2.post[i] != 0x5A) { S.violation("C08", "save() wrote outside the serialization buffer"); break; }
	dst.queued.clear(); dst.queuedTags.clear(); dst.outstandingMarks = false; dst.clearPlanBook();
	if (dst.on) { dst.model.cfg = readCfg(*dst.fsm); enteredMatchesActive(dst, "load()"); }
	else { dst.model.off(); for (int s = 0; s < HV_NS; ++s) if (dst.entered[s]) { std::snprintf(buf, sizeof buf, "state %d still entered after loading an inactive instance", s); S.violation("C03", buf); dst.entered[s] = false; } }
}

//------------------------------------------------------------------------------
// C09: the replica follows the authority by replaying its recorded transitions

void Walker::replicaFollow(Inst& a, const char* what, bool singleRoundNoSchedule, bool unrecordedSchedule) {
	if (!S.replica || !S.inst[1] || &a != S.inst[0].get()) return;
	Inst& b = *S.inst[1]; char buf[400];
	if (!a.on || !b.on) return;
	const auto& prev = a.fsm->previousTransitions();
	Ctx& x = b.ctx; x.beginStep(S.stepNo);
	if (prev.count()) {
		std::memcpy(x.sel, a.ctx.sel, sizeof x.sel); std::memcpy(x.util, a.ctx.util, sizeof x.util); std::memcpy(x.rank, a.ctx.rank, sizeof x.rank); std::memcpy(x.rnd, a.ctx.rnd, sizeof x.rnd);
		bool ok = false; LIB(ok = b.fsm->replayTransitions(prev));
		++S.replays; st.cls("replays");
		afterCall(b, "replayTransitions", true);
		for (int i = 0; i < x.n; ++i) if (isGuard(x.tr[i])) { S.violation("C09", std::string("replayTransitions() consulted a guard (") + what + ")"); break; }
		if (!ok) S.violation("C09", "replayTransitions() refused the authority's recorded transitions");
	}
	const Cfg ca = readCfg(*a.fsm), cb = readCfg(*b.fsm);
	if (unrecordedSchedule) st.cls("replica_steps_with_unrecorded_schedule");
	else if (!ca.sameActive(cb)) { std::snprintf(buf, sizeof buf, "after replaying step %u (%s) the replica's active configuration %s differs from the authority's %s", S.stepNo, what, cb.str().c_str(), ca.str().c_str()); S.violation("C09", buf); }
	else if (prev.count() && singleRoundNoSchedule && !ca.sameResumable(cb)) { std::snprintf(buf, sizeof buf, "after replaying single-round step %u (%s) the replica's resumable marks %s differ from the authority's %s", S.stepNo, what, cb.str().c_str(), ca.str().c_str()); S.violation("C09", buf); }
	if (!ca.sameActive(cb) || !ca.sameResumable(cb)) { // resynchronise through save/load
		Instance::SerialBuffer buf2; a.fsm->save(buf2); x.beginStep(S.stepNo); b.fsm->load(buf2); lifecycle(b, "resync"); st.cls("replica_resync"); }
	b.model.cfg = readCfg(*b.fsm);
	enteredMatchesActive(b, "replay");
}

//------------------------------------------------------------------------------
// first activation (constructor, enter()): every region chooses by its declared default

void Walker::firstActivation(Inst& in) {
	Ctx& x = in.ctx;
	for (int s = 0; s < HV_NS; ++s) in.entered[s] = false;
	lifecycle(in, "first activation");
	Model& m = in.model; m.env = Env{x.sel, x.util, x.rank, x.rnd, 0}; m.initial();
	const Cfg lib = readCfg(*in.fsm);
	// entry guards may have issued requests during the activation: then the model does not apply
	bool guardRequests = false; for (int i = 0; i < x.n; ++i) if (x.tr[i].kind == E_ACT_REQ) guardRequests = true;
	if (!guardRequests && !m.randomNone && !(RNG_BUILTIN && m.usedRandom) && (!lib.sameActive(m.cfg) || !lib.sameResumable(m.cfg)))
		S.violation("C02", "first activation: library " + lib.str() + " prescribed " + m.cfg.str());
	m.cfg = lib; in.queued.clear(); in.queuedTags.clear();
	{ // requests issued by entry guards beyond the substitution limit stay queued (F14)
		std::vector<Round> rs = segmentRounds(x);
		if ((int) rs.size() - 1 >= HV_SUBST_LIMIT && !rs.back().issued.empty()) { for (int i = rs.back().firstEv; i <= rs.back().lastEv; ++i) if (x.tr[i].kind == E_ACT_REQ && (int) in.queued.size() < HV_COMPO_COUNT) { in.queued.push_back(Req{x.tr[i].a, x.tr[i].b}); in.queuedTags.push_back(x.tr[i].tag); } st.cls("activation_with_leftover_requests"); } }
	enteredMatchesActive(in, "first activation");
	// C09/C14: requests issued by entry guards during the activation are transitions like any other: the history records them, the enter()
	// callbacks see them (payloads included) in currentTransitions(). Round 0 is the default activation itself (no pending transition).
	if ((S.want("C14") || S.want("C09")) && !x.overflow) { std::vector<Round> rs = segmentRounds(x);
		if (rs.size() >= 2 && rs.back().issued.empty()) { bool none[HV_NS] = {false}; st.cls("activation_history_judged"); judgeHistory(in, "first activation", rs, none); } }
}

//------------------------------------------------------------------------------

void Walker::run() {
	const Case& c = S.cs;
	const bool two = (c.hdr[1] & 1) != 0;
	S.replica = two && S.want("C09");
	for (int k = 0; k < (two ? 2 : 1); ++k) {
		S.inst[k].reset(new Inst());
		Inst& in = *S.inst[k];
		in.ctx.inst = k;
		in.ctx.observeConfig = true;
		in.ctx.observePending = S.want("C13");
		in.ctx.observePayload = S.want("C14");
		setEnv(in.ctx, c.hdr[2], c.hdr[3], S.replica);
		in.ctx.beginStep(0);
		in.ctx.initialActivation = true;
		hv::breaks() = hv::BreakLatch{};
		in.build(S.useFillOverride ? S.fillOverride : c.hdr[4], !S.forceNoLogger);
		if (!MANUAL) { in.on = true; afterCall(in, "construction", true); firstActivation(in); }
		else {
			char why[200];
			if (!configWellFormed(*in.fsm, false, why, sizeof why)) S.violation("C01", std::string("before enter(): ") + why);
#ifdef HV_MANUAL
			if (!(c.hdr[1] & (2 << (S.replica ? 0 : k)))) { in.fsm->enter(); in.on = true; afterCall(in, "enter()", true); firstActivation(in); }
#endif
		}
		in.ctx.initialActivation = false;
	}
	for (size_t i = 0; i < c.ops.size() && S.failure.empty(); ++i) { if ((int) i == S.copyAt && S.inst[S.cur]->on) { S.inst[S.cur]->switchToCopy((uint8_t) (S.fillOverride ^ 0x3C)); st.cls("continued_on_a_copy"); } step(c.ops[i], i); }
	// destruction: an automatically activated instance exits every entered state exactly once
	for (int k = 0; k < 2; ++k) if (S.inst[k]) {
		Inst& in = *S.inst[k];
		in.ctx.beginStep(++S.stepNo);
		const bool wasOn = in.on;
		in.destroy();
		if (!MANUAL && wasOn) {
			lifecycle(in, "destruction");
			for (int s = 0; s < HV_NS; ++s) if (in.entered[s]) { char b[120]; std::snprintf(b, sizeof b, "state %d still entered after the instance was destroyed", s); S.violation("C03", b); }
		}
		if (hv::breaks().count) { char b[300]; std::snprintf(b, sizeof b, "library assertion tripped at %s:%d during destruction", hv::breaks().file, hv::breaks().line); S.violation("C11", b); hv::breaks() = hv::BreakLatch{}; }
	}
}

} // namespace

//------------------------------------------------------------------------------

static std::string hv_render(const hv::Bytes& b);

static void hv_init(hv::Stats& st) {
	st.rule = std::string("machine ") + HV_MACHINE_NAME + " = " + HV_MACHINE_SPEC + "; case = 8-byte header + 32-byte op records (API call + up to 4 callback script entries), every byte string decodes to calls within the documented preconditions; "
			  "non-trivial per property: see DESIGN.md section 4 (rule evaluated by the walker: " + hv::opts().prop + "); distinct = FNV-1a of the case bytes.";
}

static std::string hv_run(const hv::Bytes& b, hv::Stats& st) {
	++st.evaluations;
	const Case c = decode(b);
	Session S(st, c);
	Walker w(S);
	w.run();
	if (S.prop == "C10" && S.failure.empty()) { // the same case in storage with other previous contents, at another address, continued on a copy from a generated point on
		hv::Stats scratch; Session S2(scratch, c); S2.useFillOverride = true; S2.fillOverride = (uint8_t) ~c.hdr[4]; S2.copyAt = c.ops.empty() ? -1 : (int) (c.hdr[6] % (c.ops.size() + 1));
		Walker w2(S2); w2.run();
		if (S2.digest != S.digest) { char b[200]; std::snprintf(b, sizeof b, "C10 the same case behaves differently in storage pre-filled with 0x%02x (continued on a copy from op %d) than in storage pre-filled with 0x%02x", (unsigned) S2.fillOverride, S2.copyAt, (unsigned) c.hdr[4]); S.failure = b; }
		st.cls("placement_differential_runs"); if (S2.copyAt >= 0 && S2.copyAt < (int) c.ops.size()) st.cls("runs_continued_on_a_copy");
	}
	if (S.prop == "C04" && S.failure.empty() && S.twinSteps > 0) { // metamorphic: the same case in which the vetoed tail rounds never take place
		hv::Stats scratch; Session S2(scratch, c); S2.suppress = S.suppressOut; S2.suppress.resize(c.ops.size(), 0); Walker w2(S2); w2.run();
		st.cls("veto_twin_runs");
		for (size_t i = 0; i < S.stepLife.size() && i < S2.stepLife.size(); ++i) if (S.stepLife[i] != S2.stepLife[i]) {
			char b[400]; std::snprintf(b, sizeof b, "C04 step %zu (%s): the lifecycle callbacks or the resulting configuration differ from the same step in which the vetoed round(s) never take place (the guard requests that led to them are not issued)%s", i + 1, OPN[c.ops[i].kind], (i < S.suppressOut.size() && S.suppressOut[i]) ? "" : " - first difference in a later step");
			S.failure = b; break; }
	}
	if (S.prop == "C16" && S.failure.empty()) { // differential: the same case with no logger ever attached behaves identically
		hv::Stats scratch; Session S2(scratch, c); S2.forceNoLogger = true; Walker w2(S2); w2.run();
		if (S2.digest != S.digest) S.failure = "C16 the same case behaves differently (callbacks / actions / configurations) when no logger is attached";
		st.cls("logger_differential_runs");
	}
	st.cls("ops_total", c.ops.size());
	bool nt = false;
	const std::string& p = S.prop;
	if (p == "C01") nt = S.cfgChanges >= 1 && S.cbChecks >= 1;
	else if (p == "C02") nt = S.kindResolved >= 1 || S.batches >= 1;
	else if (p == "C03") nt = S.reentries >= 1 || S.loads + S.replays >= 1 || S.cfgChanges >= 2;
	else if (p == "C04") nt = S.vetoedRounds >= 1 || S.multiRound >= 1;
	else if (p == "C05") nt = S.orderNontrivial >= 1;
	else if (p == "C10") nt = S.cfgChanges >= 1 || S.rngDraws >= 1;
	else if (p == "C06" || p == "C07") nt = S.planEvents >= 1;
	else if (p == "C08") nt = S.loadsDiffering >= 1;
	else if (p == "C09") nt = S.replays >= 1 && (S.vetoedRounds >= 1 || S.batches >= 1 || S.multiRound >= 1);
	else if (p == "C16") { int k = 0; for (unsigned m = S.recordKindMask; m; m >>= 1) k += m & 1; nt = k >= 4; }
	else if (p == "C13") nt = S.pendingJudged >= 1 && S.kindResolved >= 1;
	else if (p == "C14") nt = S.payloadMixed >= 1;
	else nt = S.cfgChanges >= 1;
	if (nt && S.failure.empty() && st.nontrivial.insert(hv::fnv(b)).second && st.wantSample("case", 3)) st.addSample("case", hv_render(b));
	return S.failure;
}

static std::string hv_render(const hv::Bytes& b) {
	const Case c = decode(b); std::ostringstream o;
	o << HV_MACHINE_NAME << " hdr[inst=" << ((c.hdr[1] & 1) ? 2 : 1) << " env=" << (int) c.hdr[2] << "," << (int) c.hdr[3] << " fill=" << (int) c.hdr[4] << "]";
	for (auto& op : c.ops) {
		o << " | " << OPN[op.kind];
		if (op.kind == OP_REQUEST) { int t = op.a0, d = op.a1; saneRequest(t, d); o << ((op.flags & 1) && t != 6 ? "!" : "") << " " << TTN[t] << "->" << d << ((op.flags & 2) ? "+payload" : ""); }
		else if (op.kind == OP_BATCH) o << " n=" << 2 + op.a2 % 5;
		else if (op.kind == OP_PLAN_APPEND || op.kind == OP_PLAN_CLEAR || op.kind == OP_PLAN_REMOVE) o << " r" << op.a0 % HV_REGION_COUNT;
		else if (op.kind == OP_SUCCEED || op.kind == OP_FAIL) o << " " << 1 + op.a1 % (HV_NS - 1);
		o << " env=" << (int) op.envSeed << "/" << (int) op.rndSel;
		for (auto& e : op.script) if (e.action != A_NONE) {
			o << " {" << (e.state < 0 ? std::string("*") + (e.skip ? "+" + std::to_string((int) e.skip) : "") : std::to_string(e.state)) << "." << MN[e.method] << (e.inj ? "(inj)" : "") << ": " << ACTN[e.action];
			if (e.action == A_REQ || e.action == A_BURST) { int t = e.x, d = e.y; saneRequest(t, d); o << " " << TTN[t] << "->" << d << ((e.z & 2) ? " +cancel" : "") << ((e.z & 4) ? " +consume" : ""); }
			o << "}";
		}
	}
	return o.str();
}

#ifndef HV_FUZZER
// op-kind weights per property profile
static std::vector<int> profileWeights(const std::string& p) {
	//                      upd reA reB qry req bat suc fai pAp pCl rst e/x s/l rpl log swi qB  pRm c+d chu
	if (p == "C04" || p == "C13")
		return std::vector<int>{ 6,  3,  0,  1, 12,  3,  0,  0,  0,  0,  1,  1,  0,  0,  1,  0,  0,  0,  0,  0};
	if (p == "C14") return std::vector<int>{ 8,  3,  0,  1, 12,  3,  1,  0,  4,  0,  1,  2,  0,  0,  1,  0,  0,  0,  0,  0};   // payloads also travel through plan tasks and activations
	if (p == "C09") return std::vector<int>{ 6,  3,  0,  1, 12,  3,  0,  0,  0,  0,  1,  4,  0,  0,  1,  0,  0,  0,  0,  0};
	if (p == "C02") return std::vector<int>{ 6,  2,  0,  1, 12,  5,  0,  0,  0,  0,  2,  1,  0,  0,  1,  0,  0,  0,  0,  0};
	if (p == "C11") return std::vector<int>{18,  9,  3,  3, 30, 18,  3,  3,  9,  3,  3,  3,  3,  6,  3,  3,  3,  3,  3,  1};
	if (p == "C05") return std::vector<int>{ 6,  6,  2,  6,  8,  1,  0,  0,  0,  0,  1,  1,  0,  0,  1,  0,  2,  0,  0,  0};
	if (p == "C06") return std::vector<int>{10,  4,  1,  0,  4,  0,  3,  2,  8,  1,  1,  1,  0,  0,  0,  0,  0,  2,  0,  0};
	if (p == "C08") return std::vector<int>{ 3,  1,  0,  0, 10,  2,  0,  0,  1,  0,  1,  2,  6,  0,  0,  4,  0,  0,  0,  0};
	if (p == "C16") return std::vector<int>{18,  9,  3,  6, 30,  9,  3,  3,  6,  3,  3,  3,  3,  0,  3,  3,  3,  3,  0,  1};   // long runs: the activity history saturates after 127 / 128 report updates
	return std::vector<int>{ 6,  3,  1,  2, 10,  3,  1,  1,  2,  1,  1,  1,  1,  0,  1,  1,  1,  1,  0,  0};
}

static rc::Gen<hv::Bytes> hv_gen() {
	using namespace rc;
	const std::string p = hv::opts().prop;
	const std::vector<int> w = profileWeights(p);
	// script actions:           none req can suc fai con pAp pCl bur sOt fOt noF
	std::vector<int> aw =        {10,  8,  3,  1,  1,  1,  1,  0,  1,  0,  0,  0};
	if (p == "C06") aw =         { 8,  2,  0,  8,  4,  0,  4,  1,  0,  2,  1,  2};
	if (p == "C05") aw =         {10,  2,  0,  1,  1,  8,  0,  0,  0,  0,  0,  0};
	if (p == "C11") aw =         { 8,  8,  3,  2,  2,  1,  3,  1,  6,  1,  1,  1};
	if (p == "C04") aw =         { 6,  8,  6,  0,  0,  0,  0,  0,  1,  0,  0,  0};
	if (p == "C14") aw =         {10,  8,  3,  4,  0,  1,  3,  0,  1,  1,  0,  0};
	const bool guardBias = p == "C04"; // three of five script entries address guards (method index 0/1), so that rounds with substitutions and vetoes are frequent
	auto entry = gen::map(gen::tuple(hv::byte(), hv::byte(), hv::weighted(aw), hv::byte(), hv::byte(), hv::byte()),
		[guardBias](const std::tuple<uint8_t, uint8_t, int, uint8_t, uint8_t, uint8_t>& t) { uint8_t m = std::get<1>(t); if (guardBias && (m % 5) < 3) m = (uint8_t) ((m & 0xC0) | ((m >> 3) & 1));
			return std::array<uint8_t, 6>{{std::get<0>(t), m, (uint8_t) std::get<2>(t), std::get<3>(t), std::get<4>(t), std::get<5>(t)}}; });
	auto op = gen::map(gen::tuple(hv::weighted(w), gen::container<std::vector<uint8_t>>(7, hv::byte()), gen::container<std::vector<std::array<uint8_t, 6>>>(4, entry)),
		[](const std::tuple<int, std::vector<uint8_t>, std::vector<std::array<uint8_t, 6>>>& t) {
			std::array<uint8_t, REC> r{}; r[0] = (uint8_t) std::get<0>(t);
			for (int i = 0; i < 7; ++i) r[1 + i] = std::get<1>(t)[i];
			for (int e = 0; e < 4; ++e) for (int i = 0; i < 6; ++i) r[8 + e * 6 + i] = std::get<2>(t)[e][i];
			return r; });
	const bool two = p == "C08" || p == "C09";
	const bool eitherCount = p == "C11"; // one or two instances as generated (the second one is the target of save->load and starts out not activated now and then)
	return gen::map(gen::tuple(gen::container<std::vector<uint8_t>>(HDR, hv::byte()), gen::container<std::vector<std::array<uint8_t, REC>>>(op)),
		[two, eitherCount](const std::tuple<std::vector<uint8_t>, std::vector<std::array<uint8_t, REC>>>& t) {
			hv::Bytes b = std::get<0>(t);
			if (!eitherCount) b[1] = (uint8_t) ((b[1] & ~1) | (two ? 1 : 0));
			if ((b[1] & 6) && (b[5] & 7)) b[1] &= (uint8_t) ~6; // mostly start activated
			for (auto& o : std::get<1>(t)) b.insert(b.end(), o.begin(), o.end());
			return b; });
}
#endif

HV_MAIN("walker")
