// C15 — the same program under different feature sets / header flavours. Self-contained executor: reads a corpus of cases,
// runs each on a machine that only uses the common feature subset, prints one digest per case.
//   usage: hv_feat --exec <corpus> --out <digests>      corpus = [u16 length][bytes]...
//          hv_feat --replay <case>                      prints the readable trace of one case
// Feature macros (HFSM2_ENABLE_*, HFSM2_DISABLE_TYPEINDEX) and HVF_PAYLOAD / HVF_SUBST / HVF_TASKCAP / HVF_MANUAL / HVF_BOTTOMUP come from -D.
// HVF_USE_PLANS (only in builds with HFSM2_ENABLE_PLANS): the program also edits plans and reports success/failure; such builds are only
// compared with each other (payload type, task capacity, other features and flavour vary inside the group).
#ifdef HV_DEV_FLAVOUR
	#include <hfsm2/machine_dev.hpp>
#else
	#include <hfsm2/machine.hpp>
#endif
#include <cstdio>
#include <cstdint>
#include <cstring>
#include <string>
#include <vector>

namespace hvm { struct Node { uint8_t kind, strat, headless; short parent, prong, nsubs, firstSub, compo, ortho, region, size, depth; }; }
#include HV_MACHINE_HEADER

#ifndef HVF_SUBST
	#define HVF_SUBST 4
#endif

struct Ctx;
using Cfg0 = hfsm2::Config::ContextT<Ctx&>
#ifdef HVF_MANUAL
	::ManualActivation
#endif
#ifdef HVF_BOTTOMUP
	::BottomUpReactions
#endif
	::SubstitutionLimitN<HVF_SUBST>
#if defined(HFSM2_ENABLE_PLANS) && defined(HVF_TASKCAP)
	::TaskCapacityN<HVF_TASKCAP>
#endif
#ifdef HVF_PAYLOAD
	::PayloadT<int>
#endif
	;
using M = hfsm2::MachineT<Cfg0>;
using FSM = typename HvFsm<M>::type;
using hfsm2::StateID;

extern int g_flags;
struct Script { int state; int method; int action; int type, dest; bool used; };   // method: 0 entryGuard 1 exitGuard 2 update 3 react 4 preUpdate 5 postUpdate
struct Ctx {
	std::vector<uint32_t> tr; Script sc[4]; int nsc = 0; uint8_t sel[HV_NS];
	void rec(int method, int state) { tr.push_back((uint32_t) (method * 1000 + state)); }
};
struct Ev {};

static const char* TTN[5] = {"change", "restart", "resume", "select", "schedule"};
template <typename C> static void request(C& c, int type, int dest) {
	const StateID d = (StateID) dest;
	switch (type) { case 0: c.changeTo(d); break; case 1: c.restart(d); break; case 2: c.resume(d); break; case 3: c.select(d); break; default: c.schedule(d); break; }
}
static Script* find(Ctx& x, int state, int method) { for (int i = 0; i < x.nsc; ++i) if (!x.sc[i].used && x.sc[i].state == state && x.sc[i].method == method) { x.sc[i].used = true; return &x.sc[i]; } return nullptr; }

template <int N>
struct St : FSM::State {
	using typename FSM::State::Control; using typename FSM::State::PlanControl; using typename FSM::State::FullControl; using typename FSM::State::GuardControl; using typename FSM::State::EventControl;
	using FSM::State::react;
	hfsm2::Prong select(const Control& c) noexcept { const_cast<Ctx&>(c.context()).rec(10, N); return c.context().sel[N]; }
	void guard(GuardControl& c, int m) noexcept { Ctx& x = c.context(); x.rec(m, N); x.tr.push_back(0x40000000u | (uint32_t) c.pendingTransitions().count());
		if (Script* s = find(x, N, m)) { if (s->action & 1) c.cancelPendingTransitions(); if (s->action & 2) { request(c, s->type, s->dest); g_flags |= 2; } } }
	void entryGuard(GuardControl& c) noexcept { guard(c, 0); }
	void exitGuard(GuardControl& c) noexcept { guard(c, 1); }
	void enter(PlanControl& c) noexcept { c.context().rec(6, N); }
	void reenter(PlanControl& c) noexcept { c.context().rec(7, N); }
	void exit(PlanControl& c) noexcept { c.context().rec(8, N); }
	void phase(FullControl& c, int m) noexcept { Ctx& x = c.context(); x.rec(m, N); if (Script* s = find(x, N, m)) { if (s->action & 2) { request(c, s->type, s->dest); g_flags |= 2; }
#ifdef HVF_USE_PLANS
		if (N > 0 && (s->action & 4)) { if (s->type & 1) c.fail(); else c.succeed(); x.tr.push_back(0x20000000u | (uint32_t) ((s->type & 1) * 1000 + N)); g_flags |= 4; }
#endif
	} }
#ifdef HVF_USE_PLANS
	void planSucceeded(FullControl& c) noexcept { c.context().rec(11, N); FSM::State::planSucceeded(c); }
	void planFailed(FullControl& c) noexcept { c.context().rec(12, N); FSM::State::planFailed(c); }
#endif
	void preUpdate(FullControl& c) noexcept { phase(c, 4); }
	void update(FullControl& c) noexcept { phase(c, 2); }
	void postUpdate(FullControl& c) noexcept { phase(c, 5); }
	void preReact(const Ev&, EventControl& c) noexcept { c.context().rec(13, N); }
	void postReact(const Ev&, EventControl& c) noexcept { c.context().rec(14, N); }
	void react(const Ev&, EventControl& c) noexcept { Ctx& x = c.context(); x.rec(3, N); if (Script* s = find(x, N, 3)) { if (s->action & 2) request(c, s->type, s->dest); if (s->action & 4) c.consumeEvent(); } }
};

#if defined(HFSM2_ENABLE_LOG_INTERFACE) || defined(HFSM2_ENABLE_VERBOSE_DEBUG_LOG)
struct Logger : M::LoggerInterface { unsigned long n = 0; void recordMethod(const Context&, const StateID, const hfsm2::Method) override { ++n; } };
#endif

static inline uint64_t fnv(const void* p, size_t n, uint64_t h) { const uint8_t* b = (const uint8_t*) p; for (size_t i = 0; i < n; ++i) { h ^= b[i]; h *= 1099511628211ull; } return h; }
static inline uint32_t mix(uint32_t a, uint32_t b) { uint32_t h = a * 2654435761u ^ (b + 0x9e3779b9u + (a << 6) + (a >> 2)); h ^= h >> 15; h *= 2246822519u; h ^= h >> 13; return h; }

// case: records of 16 bytes: kind, type, dest, flags, env, 3 x (state, method, action, type, dest) [15 bytes used]
int g_flags = 0; // bit0: the configuration changed, bit1: a callback issued a request, bit2: a state reported success/failure
static uint64_t runCase(const uint8_t* p, size_t n, std::string* text) {
	g_flags = 0; uint64_t lastCfg = 0; bool haveCfg = false;
	Ctx x; std::memset(x.sel, 0, sizeof x.sel);
#if defined(HFSM2_ENABLE_LOG_INTERFACE) || defined(HFSM2_ENABLE_VERBOSE_DEBUG_LOG)
	Logger logger; FSM::Instance fsm{x, &logger};
#else
	FSM::Instance fsm{x};
#endif
#ifdef HVF_MANUAL
	fsm.enter();
#endif
	uint64_t h = 1469598103934665603ull; char buf[160]; int appended = 0; (void) appended;
	auto observe = [&](const char* what) {
		h = fnv(x.tr.data(), x.tr.size() * 4, h);
		uint8_t cfg[HV_NS * 2]; for (int s = 0; s < HV_NS; ++s) { cfg[2 * s] = fsm.isActive((StateID) s); cfg[2 * s + 1] = fsm.isResumable((StateID) s); }
		h = fnv(cfg, sizeof cfg, h);
		std::string planText;
#ifdef HVF_USE_PLANS
		for (int r = 0; r < HV_REGION_COUNT; ++r) { auto p = fsm.plan((hfsm2::RegionID) r); int k = 0;
			for (auto it = p.begin(); it && k < 200; ++it, ++k) { const uint32_t w[3] = {(uint32_t) r, (uint32_t) it->origin, (uint32_t) it->destination}; h = fnv(w, sizeof w, h);
				if (text) { std::snprintf(buf, sizeof buf, " r%d:%d->%d", r, (int) it->origin, (int) it->destination); planText += buf; } } }
#endif
		{ const uint64_t ch = fnv(cfg, sizeof cfg, 7); if (haveCfg && ch != lastCfg) g_flags |= 1; lastCfg = ch; haveCfg = true; }
		if (text) { *text += what; *text += ":"; for (uint32_t e : x.tr) { if (e & 0x40000000u) std::snprintf(buf, sizeof buf, " [pending %u]", e & 0xFFFF); else if (e & 0x10000000u) std::snprintf(buf, sizeof buf, " [accepted %u]", e & 1); else if (e & 0x20000000u) std::snprintf(buf, sizeof buf, " %s(%u)", (e & 0xFFFF) >= 1000 ? "fail" : "succeed", (e & 0xFFFF) % 1000); else std::snprintf(buf, sizeof buf, " %u.%u", e % 1000, e / 1000); *text += buf; }
			*text += " | active:"; for (int s = 0; s < HV_NS; ++s) if (cfg[2 * s]) { std::snprintf(buf, sizeof buf, " %d", s); *text += buf; } *text += " resumable:"; for (int s = 0; s < HV_NS; ++s) if (cfg[2 * s + 1]) { std::snprintf(buf, sizeof buf, " %d", s); *text += buf; } if (!planText.empty()) *text += " plans:" + planText; *text += "\n"; }
		x.tr.clear();
	};
	observe("activation");
	for (size_t off = 0; off + 16 <= n; off += 16) {
		const uint8_t* r = p + off;
		for (int s = 0; s < HV_NS; ++s) { const int w = HV_NODES[s].kind == 1 ? HV_NODES[s].nsubs : 1; x.sel[s] = (uint8_t) (mix(r[4], (uint32_t) s) % (uint32_t) w); }
		x.nsc = 0;
		for (int k = 0; k < 3; ++k) { const uint8_t* e = r + 5 + k * 3; // state, method|action, type|dest packed
			Script sc; sc.state = e[0] % HV_NS; sc.method = (e[1] & 7) % 6; sc.action = (e[1] >> 3) & 7; sc.type = (e[2] & 7) % 5; sc.dest = (e[0] * 7 + (e[2] >> 3)) % HV_NS; if (sc.dest == 0 && sc.type == 4) sc.dest = 1; sc.used = false;
			if (sc.method >= 2) sc.action &= 6; // only guards cancel (bit 2: react consumes; with HVF_USE_PLANS the update phases report success/failure)
			if (sc.action) x.sc[x.nsc++] = sc; }
		int type = r[1] % 5, dest = r[2] % HV_NS; if (dest == 0 && type == 4) dest = 1;
#ifdef HVF_USE_PLANS
		const int kind = r[0] % 8;
#else
		const int kind = r[0] % 8 % 6;
#endif
		switch (kind) {
#ifdef HVF_USE_PLANS
		case 6: { const int region = r[1] % HV_REGION_COUNT; int head = 0; for (int s = 0; s < HV_NS; ++s) if (HV_NODES[s].kind != 0 && HV_NODES[s].region == region) head = s;
			const int size = HV_NODES[head].size; const int origin = head + 1 + r[2] % (size - 1);
			const int dst = (r[3] & 1) ? origin : (r[3] & 2) ? head + 1 + (r[3] >> 2) % (size - 1) : 1 + (r[3] >> 2) % (HV_NS - 1);
			auto pl = fsm.plan((hfsm2::RegionID) region); bool ok = false;
			if (appended < 24) { ++appended; switch ((r[3] >> 6) % 3) { case 0: ok = pl.change((StateID) origin, (StateID) dst); break; case 1: ok = pl.restart((StateID) origin, (StateID) dst); break; default: ok = pl.resume((StateID) origin, (StateID) dst); break; } }
			x.tr.push_back(0x10000000u | (uint32_t) ok);
			std::snprintf(buf, sizeof buf, "plan(%d).append(%d->%d)", region, origin, dst); observe(buf); break; }
		case 7: { const int region = r[1] % HV_REGION_COUNT; fsm.plan((hfsm2::RegionID) region).clear(); std::snprintf(buf, sizeof buf, "plan(%d).clear", region); observe(buf); break; }
#endif
		case 0: fsm.update(); observe("update"); break;
		case 1: fsm.react(Ev{}); observe("react"); break;
		case 2: request(fsm, type, dest); std::snprintf(buf, sizeof buf, "%s(%d)", TTN[type], dest); observe(buf); break;
		case 3: if (type == 4) { request(fsm, type, dest); } else switch (type) { case 0: fsm.immediateChangeTo((StateID) dest); break; case 1: fsm.immediateRestart((StateID) dest); break; case 2: fsm.immediateResume((StateID) dest); break; default: fsm.immediateSelect((StateID) dest); break; }
			std::snprintf(buf, sizeof buf, "immediate %s(%d)", TTN[type], dest); observe(buf); break;
		case 4:
#ifdef HVF_MANUAL
			if (r[1] >= 128) { fsm.exit(); observe("exit"); fsm.enter(); observe("enter"); break; } // a restart: nothing of the previous session may leak into the next
#endif
			fsm.reset(); observe("reset"); break;
		default: fsm.update(); observe("update"); break;
		}
	}
#ifdef HVF_MANUAL
	fsm.exit(); observe("exit");
#endif
	return h;
}

extern "C" void hfsm2_verif_break(const char*, int) noexcept {}

int main(int argc, char** argv) {
	std::string exec, out, replay;
	for (int i = 1; i + 1 < argc; i += 2) { std::string a = argv[i]; if (a == "--exec") exec = argv[i + 1]; else if (a == "--out") out = argv[i + 1]; else if (a == "--replay") replay = argv[i + 1]; }
	auto readAll = [](const std::string& p, std::vector<uint8_t>& b) { FILE* f = std::fopen(p.c_str(), "rb"); if (!f) return false; uint8_t buf[4096]; size_t n; while ((n = std::fread(buf, 1, sizeof buf, f)) > 0) b.insert(b.end(), buf, buf + n); std::fclose(f); return true; };
	if (!replay.empty()) { std::vector<uint8_t> b; if (!readAll(replay, b)) return 2; std::string text; const uint64_t h = runCase(b.data(), b.size(), &text); std::printf("%s%016llx\n", text.c_str(), (unsigned long long) h); return 0; }
	std::vector<uint8_t> b; if (!readAll(exec, b)) return 2;
	FILE* o = std::fopen(out.c_str(), "w"); if (!o) return 2;
	size_t off = 0; while (off + 2 <= b.size()) { const size_t n = b[off] | (b[off + 1] << 8); off += 2; if (off + n > b.size()) break; { const uint64_t h = runCase(b.data() + off, n, nullptr); std::fprintf(o, "%016llx %d\n", (unsigned long long) h, g_flags); } off += n; }
	std::fclose(o);
	return 0;
}
