// C19 — TaskListT (fixed-capacity pool), DynamicArrayT, StaticArrayT against std:: models.
#define HFSM2_ENABLE_PLANS
#define HFSM2_ENABLE_ASSERT
#include <hfsm2/machine.hpp>
#include "hv_common.hpp"
#include <sstream>

using hfsm2::Long;
using hfsm2::Short;
using hfsm2::StateID;
using hfsm2::TransitionType;
using hfsm2::detail::TaskListT;
using hfsm2::detail::DynamicArrayT;
using hfsm2::detail::StaticArrayT;

namespace {

struct Op { uint8_t k, a, b, c; };

struct MTask { StateID origin, dest; TransitionType type; bool hasPayload; int payload; };

template <typename P> struct PayloadOps;
template <> struct PayloadOps<void> {
	template <typename L> static Long emplace(L& l, const MTask& t) { return l.emplace(t.origin, t.dest, t.type); }
	template <typename I> static bool same(const I& it, const MTask& t) { return it.origin == t.origin && it.destination == t.dest && it.type == t.type; }
	static constexpr bool HAS = false;
};
template <> struct PayloadOps<int> {
	template <typename L> static Long emplace(L& l, const MTask& t) { return t.hasPayload ? l.emplace(t.origin, t.dest, t.type, t.payload) : l.emplace(t.origin, t.dest, t.type); }
	template <typename I> static bool same(const I& it, const MTask& t) {
		if (!(it.origin == t.origin && it.destination == t.dest && it.type == t.type)) return false;
		if (t.hasPayload) return it.payload() && *it.payload() == t.payload;
		return it.payload() == nullptr; }
	static constexpr bool HAS = true;
};

template <typename P, Long N>
std::string runPool(const std::vector<Op>& ops, hv::Stats& st, bool& nontrivial) {
	using List = TaskListT<P, N>;
	struct Guarded { uint8_t pre[32]; List list; uint8_t post[32]; } g;
	std::memset(g.pre, 0xA5, 32); std::memset(g.post, 0x5A, 32);
	List& list = g.list;
	std::map<Long, MTask> live;
	unsigned long expectedBreaks = 0;
	bool reachedFull = false, recycled = false; std::set<Long> everFreed;
	char buf[240];
	auto fail = [&](size_t i, const char* what) { std::snprintf(buf, sizeof buf, "C19 TaskListT<%s,%u> op#%zu: %s", PayloadOps<P>::HAS ? "int" : "void", (unsigned) N, i, what); return std::string(buf); };
	for (size_t i = 0; i < ops.size(); ++i) {
		const Op& o = ops[i];
		switch (o.k % 8) {
		case 0: case 1: case 2: case 3: { // emplace (weighted)
			MTask t{(StateID) o.a, (StateID) o.b, (TransitionType) (o.c % 7), (o.c & 0x80) != 0 && PayloadOps<P>::HAS, (int) (o.a * 65536 + o.b * 256 + o.c)};
			const bool full = live.size() >= N;
			if (full) ++expectedBreaks; // the deliberate HFSM2_BREAK() of the 'full' branch (see DESIGN: F21)
			const Long idx = PayloadOps<P>::emplace(list, t);
			if (full) { if (idx != List::INVALID) return fail(i, "emplace on a full pool did not fail"); reachedFull = true; st.cls("pool_emplace_when_full"); }
			else {
				if (idx == List::INVALID) return fail(i, "emplace failed although a slot is free");
				if (idx >= N) return fail(i, "emplace returned an index outside the pool");
				if (live.count(idx)) return fail(i, "emplace returned a slot that is in use");
				if (everFreed.count(idx)) recycled = true;
				live[idx] = t;
				if (live.size() == N) reachedFull = true;
			}
			break; }
		case 4: case 5: { // remove a live slot
			if (live.empty()) break;
			auto it = live.begin(); std::advance(it, (o.a | (o.b << 8)) % live.size());
			const Long idx = it->first;
			list.remove(idx); live.erase(it); everFreed.insert(idx);
			break; }
		case 6: if (o.a < 40) { list.clear(); live.clear(); everFreed.clear(); st.cls("pool_clear"); } break;
		case 7: break; // read-only step
		}
		if (list.count() != live.size()) return fail(i, "count() differs from the number of live slots");
		if (list.empty() != live.empty()) return fail(i, "empty() wrong");
		for (auto& kv : live) if (!PayloadOps<P>::same(list[kv.first], kv.second)) return fail(i, "a live item changed its contents");
		if (hv::breaks().count != expectedBreaks) { std::snprintf(buf, sizeof buf, "C19 TaskListT<%u> op#%zu: library assertion tripped at %s:%d", (unsigned) N, i, hv::breaks().file, hv::breaks().line); return buf; }
		for (int k = 0; k < 32; ++k) if (g.pre[k] != 0xA5 || g.post[k] != 0x5A) return fail(i, "wrote outside the pool object");
	}
	nontrivial = reachedFull && recycled;
	if (reachedFull) st.cls("pool_reached_full");
	if (recycled) st.cls("pool_recycled_slot");
	return "";
}

struct Item { int a; uint8_t b; Item() : a(0), b(0) {} Item(int a_, uint8_t b_) : a(a_), b(b_) {} bool operator==(const Item& o) const { return a == o.a && b == o.b; } };

template <Long N>
std::string runDyn(const std::vector<Op>& ops, hv::Stats& st, bool& nontrivial) {
	using Arr = DynamicArrayT<Item, N>;
	struct Guarded { uint8_t pre[32]; Arr arr; uint8_t post[32]; } g;
	std::memset(g.pre, 0xA5, 32); std::memset(g.post, 0x5A, 32);
	std::vector<Item> m; bool atCap = false, bulk = false;
	char buf[200];
	auto fail = [&](size_t i, const char* what) { std::snprintf(buf, sizeof buf, "C19 DynamicArrayT<%u> op#%zu: %s", (unsigned) N, i, what); return std::string(buf); };
	for (size_t i = 0; i < ops.size(); ++i) {
		const Op& o = ops[i];
		Arr& a = g.arr;
		switch (o.k % 8) {
		case 0: case 1: case 2: {
			Item it{(int) (o.a * 256 + o.b) - 30000, o.c};
			const auto idx = (o.k & 8) ? a.emplace(it) : a.emplace((int) it.a, (uint8_t) it.b);
			if (m.size() < N) { if (idx != m.size()) return fail(i, "append did not return the next index"); m.push_back(it); }
			else { atCap = true; st.cls("array_append_when_full"); if (idx != N) return fail(i, "append to a full array was not rejected"); }
			break; }
		case 3: { // bulk append from an array of another capacity
			DynamicArrayT<Item, 5> other; const unsigned n = o.a % 6;
			for (unsigned k = 0; k < n; ++k) other.emplace((int) (o.b + k), (uint8_t) (o.c + k));
			a += other; bulk = bulk || n > 1;
			for (unsigned k = 0; k < n; ++k) if (m.size() < N) m.push_back(Item{(int) (o.b + k), (uint8_t) (o.c + k)}); else atCap = true;
			break; }
		case 4: { Arr copy = a; a.clear(); a = copy; break; }          // copy + assign back
		case 5: { Arr copy = a; if (!m.empty()) copy[0].a ^= 1; break; } // a copy is independent
		case 6: if (o.a < 60) { a.clear(); m.clear(); } break;
		case 7: if (!m.empty()) { const unsigned k = o.a % m.size(); a[k].b = o.b; m[k].b = o.b; } break;
		}
		if (a.count() != m.size()) return fail(i, "count() differs from model");
		if (a.empty() != m.empty()) return fail(i, "empty() wrong");
		for (size_t k = 0; k < m.size(); ++k) if (!(a[k] == m[k])) return fail(i, "contents / order differ from model");
		size_t n = 0; for (const Item& it : a) { if (n >= m.size() || !(it == m[n])) return fail(i, "iteration differs from model"); ++n; }
		if (n != m.size()) return fail(i, "iteration length differs from model");
		if (hv::breaks().count) { std::snprintf(buf, sizeof buf, "C19 DynamicArrayT<%u> op#%zu: library assertion tripped at %s:%d", (unsigned) N, i, hv::breaks().file, hv::breaks().line); return buf; }
		for (int k = 0; k < 32; ++k) if (g.pre[k] != 0xA5 || g.post[k] != 0x5A) return fail(i, "wrote outside the array object");
	}
	nontrivial = atCap || (bulk && m.size() >= 2);
	return "";
}

template <typename T, Long N>
std::string runStatic(const std::vector<Op>& ops, hv::Stats& st, bool& nontrivial) {
	using Arr = StaticArrayT<T, N>;
	const T filler = hfsm2::detail::filler<T>();
	Arr a{filler}, b{filler}; std::vector<T> ma(N, filler), mb(N, filler);
	char buf[200]; bool wrote = false;
	auto fail = [&](size_t i, const char* what) { std::snprintf(buf, sizeof buf, "C19 StaticArrayT<%u> op#%zu: %s", (unsigned) N, i, what); return std::string(buf); };
	for (size_t i = 0; i < ops.size(); ++i) {
		const Op& o = ops[i];
		switch (o.k % 6) {
		case 0: case 1: { const unsigned k = o.a % N; a[k] = (T) o.b; ma[k] = (T) o.b; wrote = true; break; }
		case 2: a.fill((T) o.a); ma.assign(N, (T) o.a); break;
		case 3: a.clear(); ma.assign(N, filler); break;
		case 4: { Arr t = a; a = b; b = t; ma.swap(mb); break; }
		case 5: b = a; mb = ma; break;
		}
		if (a.count() != N) return fail(i, "count() is not the capacity");
		bool empty = true, diff = false;
		for (unsigned k = 0; k < N; ++k) { if (a[k] != ma[k] || b[k] != mb[k]) return fail(i, "contents differ from model"); empty = empty && ma[k] == filler; diff = diff || ma[k] != mb[k]; }
		if (a.empty() != empty) return fail(i, "empty() wrong");
		if ((a != b) != diff) return fail(i, "operator!= wrong");
		if (hv::breaks().count) return fail(i, "library assertion tripped");
	}
	(void) st; nontrivial = wrote && ops.size() >= 3;
	return "";
}

static const unsigned PCAPS[10] = {1, 2, 3, 4, 7, 16, 64, 255, 256, 257};

std::vector<Op> decodeOps(hv::Reader& r) {
	std::vector<Op> ops;
	while (r.more()) { Op o; o.k = r.u8(); o.a = r.u8(); o.b = r.u8(); o.c = r.u8(); ops.push_back(o); }
	return ops;
}

template <template <Long> class F, typename... A>
std::string byCap(unsigned sel, A&&... a) {
	switch (sel % 10) {
	case 0: return F<1>::run(a...); case 1: return F<2>::run(a...); case 2: return F<3>::run(a...); case 3: return F<4>::run(a...);
	case 4: return F<7>::run(a...); case 5: return F<16>::run(a...); case 6: return F<64>::run(a...);
	case 7: return F<255>::run(a...); case 8: return F<256>::run(a...); default: return F<257>::run(a...); // index types change at 256
	}
}
template <Long N> struct PoolV { static std::string run(const std::vector<Op>& o, hv::Stats& s, bool& n) { return runPool<void, N>(o, s, n); } };
template <Long N> struct PoolI { static std::string run(const std::vector<Op>& o, hv::Stats& s, bool& n) { return runPool<int, N>(o, s, n); } };
template <Long N> struct Dyn   { static std::string run(const std::vector<Op>& o, hv::Stats& s, bool& n) { return runDyn<N>(o, s, n); } };
template <Long N> struct StaS  { static std::string run(const std::vector<Op>& o, hv::Stats& s, bool& n) { return runStatic<Short, N>(o, s, n); } };
template <Long N> struct StaI  { static std::string run(const std::vector<Op>& o, hv::Stats& s, bool& n) { return runStatic<int, N>(o, s, n); } };

static const char* MODES[5] = {"TaskListT<void>", "TaskListT<int>", "DynamicArrayT", "StaticArrayT<Short>", "StaticArrayT<int>"};

} // namespace

static std::string hv_render(const hv::Bytes& c);

static void hv_init(hv::Stats& st) {
	st.rule = "case = (container kind, capacity selector from {1,2,3,4,7,16,64}, op list); after every op count, emptiness and the contents of every live item are compared with a std::map / "
			  "std::vector model, with the library's own verifyStructure() assertions live. non-trivial: pool = reached full and re-used a freed slot; bounded array = append at capacity or a "
			  "bulk append of >= 2; static array = >= 3 ops with a write. distinct = FNV-1a of the case bytes.";
}

static std::string hv_run(const hv::Bytes& c, hv::Stats& st) {
	++st.evaluations;
	hv::Reader r(c);
	const unsigned mode = r.u8() % 5, sel = r.u8();
	std::vector<Op> ops = decodeOps(r);
	bool nt = false; std::string v;
	switch (mode) {
	case 0: v = byCap<PoolV>(sel, ops, st, nt); break;
	case 1: v = byCap<PoolI>(sel, ops, st, nt); break;
	case 2: v = byCap<Dyn>(sel, ops, st, nt); break;
	case 3: v = byCap<StaS>(sel, ops, st, nt); break;
	default: v = byCap<StaI>(sel, ops, st, nt); break;
	}
	st.cls(std::string("mode_") + MODES[mode]);
	if (nt && v.empty() && st.nontrivial.insert(hv::fnv(c)).second) {
		st.cls(std::string("nontrivial_") + MODES[mode]);
		if (st.wantSample(MODES[mode], 1)) st.addSample(MODES[mode], hv_render(c));
	}
	return v;
}

static std::string hv_render(const hv::Bytes& c) {
	hv::Reader r(c);
	const unsigned mode = r.u8() % 5, sel = r.u8();
	std::vector<Op> ops = decodeOps(r);
	std::ostringstream o;
	o << MODES[mode] << " cap " << PCAPS[sel % 10] << ":";
	static const char* pool[8] = {"emplace", "emplace", "emplace", "emplace", "remove", "remove", "clear?", "read"};
	static const char* dyn[8] = {"append", "append", "append", "+=", "copy-back", "copy-indep", "clear?", "write"};
	static const char* sta[6] = {"write", "write", "fill", "clear", "swapAB", "B=A"};
	for (auto& op : ops) {
		if (mode < 2) o << " " << pool[op.k % 8]; else if (mode == 2) o << " " << dyn[op.k % 8]; else o << " " << sta[op.k % 6];
		o << "(" << (int) op.a << "," << (int) op.b << "," << (int) op.c << ")";
	}
	return o.str();
}

#ifndef HV_FUZZER
static rc::Gen<hv::Bytes> hv_gen() {
	using namespace rc;
	auto op = gen::map(gen::tuple(hv::byte(), hv::byte(), hv::byte(), hv::byte()), [](const std::tuple<uint8_t, uint8_t, uint8_t, uint8_t>& t) {
		return std::array<uint8_t, 4>{{std::get<0>(t), std::get<1>(t), std::get<2>(t), std::get<3>(t)}};
	});
	return gen::map(gen::tuple(hv::weighted({3, 3, 2, 1, 1}), hv::range(0, 10), gen::container<std::vector<std::array<uint8_t, 4>>>(op)),
		[](const std::tuple<int, int, std::vector<std::array<uint8_t, 4>>>& t) {
			hv::Bytes b{(uint8_t) std::get<0>(t), (uint8_t) std::get<1>(t)};
			for (auto& o : std::get<2>(t)) b.insert(b.end(), o.begin(), o.end());
			return b;
		});
}
#endif

HV_MAIN("C19 task pool and bounded arrays")
