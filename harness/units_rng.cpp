// C20 — bundled generators against reference implementations written from the published algorithms.
#define HFSM2_ENABLE_UTILITY_THEORY
#define HFSM2_ENABLE_ASSERT
#include <hfsm2/machine.hpp>
#include "hv_common.hpp"
#include <sstream>

namespace ref {
// --- splitmix64 (Steele, Lea, Flood; Vigna's splitmix64.c) -------------------------------------
struct SplitMix64 { uint64_t x;
	uint64_t raw() { uint64_t z = (x += 0x9e3779b97f4a7c15ull); z = (z ^ (z >> 30)) * 0xbf58476d1ce4e5b9ull; z = (z ^ (z >> 27)) * 0x94d049bb133111ebull; return z ^ (z >> 31); }
	uint64_t nonzero(int& skipped) { for (;;) { uint64_t v = raw(); if (v) return v; ++skipped; } } };
// --- splitmix32 (murmur3 finaliser over a Weyl sequence) ---------------------------------------
struct SplitMix32 { uint32_t x;
	uint32_t raw() { uint32_t z = (x += 0x9e3779b9u); z = (z ^ (z >> 16)) * 0x85ebca6bu; z = (z ^ (z >> 13)) * 0xc2b2ae35u; return z ^ (z >> 16); }
	uint32_t nonzero(int& skipped) { for (;;) { uint32_t v = raw(); if (v) return v; ++skipped; } } };
static inline uint64_t rotl64(uint64_t x, int k) { return (x << k) | (x >> (64 - k)); }
static inline uint32_t rotl32(uint32_t x, int k) { return (x << k) | (x >> (32 - k)); }
// --- xoshiro256+ / xoshiro256** (Blackman, Vigna) ----------------------------------------------
struct X256 { uint64_t s[4]; bool starstar;
	uint64_t next() {
		const uint64_t result = starstar ? rotl64(s[1] * 5, 7) * 9 : s[0] + s[3];
		const uint64_t t = s[1] << 17;
		s[2] ^= s[0]; s[3] ^= s[1]; s[1] ^= s[2]; s[0] ^= s[3]; s[2] ^= t; s[3] = rotl64(s[3], 45);
		return result; }
	void jump() {
		static const uint64_t J[] = {0x180ec6d33cfd0abaull, 0xd5a61266f0c9392cull, 0xa9582618e03fc9aaull, 0x39abdc4529b1661cull};
		uint64_t a = 0, b = 0, c = 0, d = 0;
		for (int i = 0; i < 4; ++i) for (int bit = 0; bit < 64; ++bit) { if (J[i] & (1ull << bit)) { a ^= s[0]; b ^= s[1]; c ^= s[2]; d ^= s[3]; } next(); }
		s[0] = a; s[1] = b; s[2] = c; s[3] = d; } };
// --- xoshiro128+ / xoshiro128** -----------------------------------------------------------------
struct X128 { uint32_t s[4]; bool starstar;
	uint32_t next() {
		const uint32_t result = starstar ? rotl32(s[1] * 5, 7) * 9 : s[0] + s[3];
		const uint32_t t = s[1] << 9;
		s[2] ^= s[0]; s[3] ^= s[1]; s[1] ^= s[2]; s[0] ^= s[3]; s[2] ^= t; s[3] = rotl32(s[3], 11);
		return result; }
	void jump() {
		static const uint32_t J[] = {0x8764000bu, 0xf542d2d3u, 0x6fa035c3u, 0x77f2db5bu};
		uint32_t a = 0, b = 0, c = 0, d = 0;
		for (int i = 0; i < 4; ++i) for (int bit = 0; bit < 32; ++bit) { if (J[i] & (1u << bit)) { a ^= s[0]; b ^= s[1]; c ^= s[2]; d ^= s[3]; } next(); }
		s[0] = a; s[1] = b; s[2] = c; s[3] = d; } };
static inline float  toFloat (uint32_t u) { uint32_t b = (0x7Fu << 23) | (u >> 9); float f; std::memcpy(&f, &b, 4); return f - 1.0f; }
static inline double toDouble(uint64_t u) { uint64_t b = (0x3FFull << 52) | (u >> 12); double f; std::memcpy(&f, &b, 8); return f - 1.0; }

// published vectors anchoring the reference implementations themselves
static const char* selfTest() {
	{ SplitMix64 g{1234567}; const uint64_t e[5] = {6457827717110365317ull, 3203168211198807973ull, 9817491932198370423ull, 4593380528125082431ull, 16408922859458223821ull};
	  for (uint64_t v : e) if (g.raw() != v) return "splitmix64 reference does not match the published vector (seed 1234567)"; }
	{ X256 g{{1, 2, 3, 4}, true}; const uint64_t e[4] = {11520ull, 0ull, 1509978240ull, 1215971899390074240ull};
	  for (uint64_t v : e) if (g.next() != v) return "xoshiro256** reference does not match the published vector (state 1,2,3,4)"; }
	{ X256 g{{1, 2, 3, 4}, false}; const uint64_t e[4] = {5ull, 211106232532999ull, 211106635186183ull, 9223759065350669058ull};
	  for (uint64_t v : e) if (g.next() != v) return "xoshiro256+ reference does not match the published vector (state 1,2,3,4)"; }
	{ X128 g{{1, 2, 3, 4}, true}; const uint32_t e[4] = {11520u, 0u, 5927040u, 70819200u};
	  for (uint32_t v : e) if (g.next() != v) return "xoshiro128** reference does not match the published vector (state 1,2,3,4)"; }
	{ X128 g{{1, 2, 3, 4}, false}; const uint32_t e[4] = {5u, 12295u, 25178119u, 27286542u};
	  for (uint32_t v : e) if (g.next() != v) return "xoshiro128+ reference does not match the published vector (state 1,2,3,4)"; }
	return nullptr;
}
} // namespace ref

namespace {

using hfsm2::detail::SimpleRandomT;
using hfsm2::detail::FloatRandomT;
using hfsm2::detail::IntRandomT;

struct Case { unsigned variant, seedMode; uint64_t seed; uint64_t words[4]; unsigned k; unsigned n1, n2; bool jump; unsigned reseedAt; std::vector<uint8_t> calls; };

static Case decode(const hv::Bytes& c) {
	hv::Reader r(c); Case x;
	x.variant = r.u8() % 6; x.seedMode = r.u8() % 4; x.k = 1 + r.u8() % 8;
	x.seed = r.u64(); for (auto& w : x.words) w = r.u64();
	x.n1 = r.u16() % 2001; x.jump = r.u8() & 1; x.n2 = r.u16() % 2001; x.reseedAt = r.u16();
	while (r.more()) x.calls.push_back(r.u8());
	if (x.calls.empty()) x.calls.push_back(0);
	return x;
}

static const char* VAR[6] = {"SimpleRandomT<8>", "SimpleRandomT<4>", "FloatRandomT<8>", "FloatRandomT<4>", "IntRandomT<8>", "IntRandomT<4>"};
static const uint64_t GAMMA64 = 0x9e3779b97f4a7c15ull; static const uint32_t GAMMA32 = 0x9e3779b9u;

// the seed actually used: mode 1 constructs the seed that makes the k-th splitmix output zero
static uint64_t effectiveSeed(const Case& x, bool wide) {
	if (x.seedMode == 1) return wide ? (uint64_t) (0 - (uint64_t) x.k * GAMMA64) : (uint64_t) (uint32_t) (0 - (uint32_t) x.k * GAMMA32);
	if (x.seedMode == 3) return 0;
	return wide ? x.seed : (uint32_t) x.seed;
}

template <typename G, typename R, typename W, typename SM>
std::string runXo(const Case& x, bool starstar, hv::Stats& st, bool& nontrivial) {
	// G library generator, R reference, W word type, SM reference seeder
	char buf[256];
	int skipped = 0;
	R ref{{0, 0, 0, 0}, starstar};
	G* gen = nullptr;
	alignas(16) unsigned char storage[sizeof(G)];
	std::memset(storage, 0xCD, sizeof storage);
	const bool wide = sizeof(W) == 8;
	auto seedRef = [&](uint64_t s) { SM sm{(W) s}; for (int i = 0; i < 4; ++i) ref.s[i] = sm.nonzero(skipped); };
	if (x.seedMode == 2) {
		W w[4]; for (int i = 0; i < 4; ++i) w[i] = (W) x.words[i];
		if (!(w[0] | w[1] | w[2] | w[3])) w[0] = 1; // an all-zero explicit state is the caller's error
		gen = new (storage) G{w}; for (int i = 0; i < 4; ++i) ref.s[i] = w[i];
	} else if (x.seedMode == 3) { gen = new (storage) G{}; seedRef(0); }
	else { const uint64_t s = effectiveSeed(x, wide); gen = new (storage) G{(W) s}; seedRef(s); }
	if (!(ref.s[0] | ref.s[1] | ref.s[2] | ref.s[3])) return "C20 reference seeding produced an all-zero state (harness bug)";
	// first four outputs not all zero <=> state not all zero (for +: s0+s3 ... ) checked through the sequence equality below
	unsigned pos = 0; bool allZero = true;
	auto step = [&](uint8_t call) -> std::string {
		const W expect = ref.next();
		W got;
		switch (call % 4) {
		case 0: got = wide ? (W) gen->uint64() : (W) gen->uint32(); break;
		case 1: { // the other width
			if (wide) { const uint32_t g32 = gen->uint32(); if (g32 != (uint32_t) expect) { std::snprintf(buf, sizeof buf, "uint32() at position %u", pos); return buf; } got = expect; }
			else { const W second = ref.next(); const uint64_t g64 = gen->uint64(); const uint64_t e64 = ((uint64_t) expect << 32) | second;
				if (g64 != e64) { std::snprintf(buf, sizeof buf, "uint64() at position %u: got %llx expected %llx", pos, (unsigned long long) g64, (unsigned long long) e64); return buf; } got = expect; ++pos; }
			break; }
		case 2: { const float f = gen->float32(); const float e = ref::toFloat((uint32_t) expect);
			if (!(f >= 0.0f && f < 1.0f)) { std::snprintf(buf, sizeof buf, "float32() = %.9g outside [0,1) at position %u", (double) f, pos); return buf; }
			if (f != e) { std::snprintf(buf, sizeof buf, "float32() at position %u", pos); return buf; } got = expect; break; }
		default: {
			double d, e;
			if (wide) { d = gen->float64(); e = ref::toDouble((uint64_t) expect); }
			else { const W second = ref.next(); d = gen->float64(); e = ref::toDouble(((uint64_t) expect << 32) | second); ++pos; }
			if (!(d >= 0.0 && d < 1.0)) { std::snprintf(buf, sizeof buf, "float64() = %.17g outside [0,1) at position %u", d, pos); return buf; }
			if (d != e) { std::snprintf(buf, sizeof buf, "float64() at position %u", pos); return buf; } got = expect; break; }
		}
		if (got != expect) { std::snprintf(buf, sizeof buf, "output at position %u: got %llx expected %llx", pos, (unsigned long long) got, (unsigned long long) expect); return buf; }
		if (got) allZero = false;
		++pos; return "";
	};
	auto fail = [&](const std::string& what) { return std::string("C20 ") + VAR[x.variant] + " seedMode " + std::to_string(x.seedMode) + ": " + what; };
	for (unsigned i = 0; i < x.n1; ++i) {
		std::string e = step(x.calls[i % x.calls.size()]); if (!e.empty()) return fail(e);
		if (i == 3 && allZero && x.n1 >= 4) return fail("first four outputs are all zero");
	}
	if (x.jump) {
		gen->jump(); ref.jump(); st.cls("jump");
		for (unsigned i = 0; i < x.n2; ++i) { std::string e = step(x.calls[(x.n1 + i) % x.calls.size()]); if (!e.empty()) return fail("after jump(): " + e); }
	}
	if (skipped) st.cls("seeding_skipped_zero");
	nontrivial = skipped > 0 || (x.jump && x.n2 > 0);
	return "";
}

template <typename G, typename SM, typename W>
std::string runSimple(const Case& x, hv::Stats& st, bool& nontrivial) {
	const bool wide = sizeof(W) == 8;
	const uint64_t s = effectiveSeed(x, wide);
	G gen{(W) s}; SM sm{(W) s}; int skipped = 0; char buf[200];
	for (unsigned i = 0; i < x.n1; ++i) {
		const bool raw = x.calls[i % x.calls.size()] & 1;
		W got, expect;
		if (raw) { got = wide ? (W) gen.raw64() : (W) gen.raw32(); expect = sm.raw(); }
		else { got = wide ? (W) gen.uint64() : (W) gen.uint32(); expect = sm.nonzero(skipped); if (!got) return std::string("C20 ") + VAR[x.variant] + ": zero handed out by the non-zero draw"; }
		if (got != expect) { std::snprintf(buf, sizeof buf, "C20 %s position %u: got %llx expected %llx", VAR[x.variant], i, (unsigned long long) got, (unsigned long long) expect); return buf; }
	}
	if (skipped) st.cls("simple_skipped_zero");
	nontrivial = skipped > 0 || x.n1 > 100;
	return "";
}

// adapters giving the 32-bit and 64-bit library classes one interface
struct S8 : SimpleRandomT<8> { using SimpleRandomT<8>::SimpleRandomT; uint32_t raw32() { return 0; } uint32_t uint32() { return 0; } };
struct S4 : SimpleRandomT<4> { using SimpleRandomT<4>::SimpleRandomT; uint64_t raw64() { return 0; } uint64_t uint64() { return 0; } };

} // namespace

static std::string hv_render(const hv::Bytes& c);
static const char* g_selfTest = nullptr;

static void hv_init(hv::Stats& st) {
	g_selfTest = ref::selfTest();
	st.rule = "case = (generator variant of 6, seeding mode {generated seed, constructed seed -k*gamma that makes the k-th splitmix output zero, explicit 4-word state, default}, "
			  "n1 <= 2000 outputs, optional jump(), n2 <= 2000 outputs, per-output accessor uint32/uint64/float32/float64); every output compared with reference splitmix/xoshiro implementations "
			  "(anchored by published vectors), floats checked to lie in [0,1). non-trivial = seeding skipped >= 1 zero, or outputs compared after a jump(). distinct = FNV-1a of the case bytes.";
}

static std::string hv_run(const hv::Bytes& c, hv::Stats& st) {
	++st.evaluations;
	if (g_selfTest) return std::string("C20 HARNESS SELF-TEST: ") + g_selfTest;
	const Case x = decode(c);
	bool nt = false; std::string v;
	switch (x.variant) {
	case 0: v = runSimple<S8, ref::SplitMix64, uint64_t>(x, st, nt); break;
	case 1: v = runSimple<S4, ref::SplitMix32, uint32_t>(x, st, nt); break;
	case 2: v = runXo<FloatRandomT<8>, ref::X256, uint64_t, ref::SplitMix64>(x, false, st, nt); break;
	case 3: v = runXo<FloatRandomT<4>, ref::X128, uint32_t, ref::SplitMix32>(x, false, st, nt); break;
	case 4: v = runXo<IntRandomT<8>, ref::X256, uint64_t, ref::SplitMix64>(x, true, st, nt); break;
	default: v = runXo<IntRandomT<4>, ref::X128, uint32_t, ref::SplitMix32>(x, true, st, nt); break;
	}
	st.cls(VAR[x.variant]); st.cls(std::string("seedMode_") + std::to_string(x.seedMode));
	if (nt && v.empty() && st.nontrivial.insert(hv::fnv(c)).second && st.wantSample(VAR[x.variant], 1)) st.addSample(VAR[x.variant], hv_render(c));
	return v;
}

static std::string hv_render(const hv::Bytes& c) {
	const Case x = decode(c); std::ostringstream o;
	static const char* SM[4] = {"seed", "constructed(-k*gamma)", "explicit-state", "default"};
	o << VAR[x.variant] << " " << SM[x.seedMode] << " seed=0x" << std::hex << effectiveSeed(x, !(x.variant & 1)) << std::dec << " k=" << x.k << " n1=" << x.n1 << (x.jump ? " jump" : "") << " n2=" << x.n2 << " calls=" << x.calls.size();
	return o.str();
}

#ifndef HV_FUZZER
static rc::Gen<hv::Bytes> hv_gen() {
	using namespace rc;
	return gen::map(gen::tuple(hv::range(0, 6), hv::weighted({3, 4, 2, 1}), gen::container<std::vector<uint8_t>>(48, hv::byte()), gen::container<std::vector<uint8_t>>(hv::byte())),
		[](const std::tuple<int, int, std::vector<uint8_t>, std::vector<uint8_t>>& t) {
			hv::Bytes b{(uint8_t) std::get<0>(t), (uint8_t) std::get<1>(t)};
			b.insert(b.end(), std::get<2>(t).begin(), std::get<2>(t).end());
			b.insert(b.end(), std::get<3>(t).begin(), std::get<3>(t).end());
			return b;
		});
}
#endif

HV_MAIN("C20 bundled generators")
