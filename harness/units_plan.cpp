// C07 — plan storage: per-region task lists under append / remove-while-iterating / clear at and around capacity.
#define HFSM2_ENABLE_PLANS
#define HFSM2_ENABLE_UTILITY_THEORY
#define HFSM2_ENABLE_ASSERT
#include <hfsm2/machine.hpp>
#include "hv_common.hpp"
#include <sstream>

namespace {

using hfsm2::StateID; using hfsm2::RegionID; using hfsm2::TransitionType;

template <typename M>
struct Mach {
	template <int N> struct S;
	using FSM = typename M::template Root<S<0>,
		typename M::template Composite<S<1>, S<2>, S<3>>,
		typename M::template Orthogonal<S<4>, typename M::template Composite<S<5>, S<6>, S<7>>, typename M::template Resumable<S<8>, S<9>, S<10>>>,
		typename M::template Selectable<S<11>, S<12>, S<13>>>;
	template <int N> struct S : FSM::State {};
};
static const int NS = 14, NR = 6;
static const int REGION_HEAD[NR] = {0, 1, 4, 5, 8, 11};
static const int REGION_SIZE[NR] = {14, 3, 7, 3, 3, 3};

using MA = hfsm2::MachineT<hfsm2::Config::TaskCapacityN<5>>;
using MB = hfsm2::MachineT<hfsm2::Config::TaskCapacityN<12>::PayloadT<int>>;
using MC = hfsm2::MachineT<hfsm2::Config::ManualActivation>; // default capacity = 2 * prongs

struct MT { int origin, dest, type; bool hasPayload; int payload; };
struct Op { uint8_t k, a, b, c, d; };
static const char* TTN[7] = {"change", "restart", "resume", "select", "utilize", "randomize", "schedule"};

template <typename P, bool HAS> struct App {
	static bool go(P& p, const MT& t) {
		const StateID o = (StateID) t.origin, d = (StateID) t.dest;
		switch (t.type) { case 0: return p.change(o, d); case 1: return p.restart(o, d); case 2: return p.resume(o, d); case 3: return p.select(o, d); case 4: return p.utilize(o, d); case 5: return p.randomize(o, d); default: return p.schedule(o, d); } }
	template <typename T> static bool same(const T& it, const MT& t) { return (int) it.origin == t.origin && (int) it.destination == t.dest && (int) it.type == t.type; }
};
template <typename P> struct App<P, true> {
	static bool go(P& p, const MT& t) {
		if (!t.hasPayload) return App<P, false>::go(p, t);
		const StateID o = (StateID) t.origin, d = (StateID) t.dest;
		switch (t.type) { case 0: return p.changeWith(o, d, t.payload); case 1: return p.restartWith(o, d, t.payload); case 2: return p.resumeWith(o, d, t.payload); case 3: return p.selectWith(o, d, t.payload);
						  case 4: return p.utilizeWith(o, d, t.payload); case 5: return p.randomizeWith(o, d, t.payload); default: return p.scheduleWith(o, d, t.payload); } }
	template <typename T> static bool same(const T& it, const MT& t) {
		if (!App<P, false>::same(it, t)) return false;
		return t.hasPayload ? (it.payload() && *it.payload() == t.payload) : it.payload() == nullptr; }
};

template <typename I> void enterIfManual(I& f, std::true_type) { f.enter(); }
template <typename I> void enterIfManual(I&, std::false_type) {}
template <typename I> bool restartIfManual(I& f, std::true_type) { f.exit(); f.enter(); return true; }
template <typename I> bool restartIfManual(I&, std::false_type) { return false; }

template <typename M, bool HAS_PAYLOAD, bool MANUAL>
std::string runCase(const std::vector<Op>& ops, hv::Stats& st, bool& nontrivial, int capacityExpected) {
	using FSM = typename Mach<M>::FSM;
	using Instance = typename FSM::Instance;
	struct Guarded { uint8_t pre[64]; alignas(16) unsigned char store[sizeof(Instance)]; uint8_t post[64]; } g;
	std::memset(g.pre, 0xA5, 64); std::memset(g.post, 0x5A, 64); std::memset(g.store, 0xCC, sizeof g.store);
	Instance& fsm = *new (g.store) Instance{};
	struct Destroy { Instance& f; ~Destroy() { f.~Instance(); } } destroy{fsm};
	const int capacity = (int) FSM::TASK_CAPACITY;
	if (capacity != capacityExpected) return "C07 TASK_CAPACITY differs from the configured / documented default value";
	std::vector<MT> model[NR]; int total = 0;
	bool failedAppend = false, removedMiddle = false; char buf[300];
	auto fail = [&](size_t i, const char* what) { std::snprintf(buf, sizeof buf, "C07 capacity %d op#%zu: %s", capacity, i, what); return std::string(buf); };
	enterIfManual(fsm, std::integral_constant<bool, MANUAL>{});
	for (size_t i = 0; i < ops.size(); ++i) {
		const Op& o = ops[i];
		const int r = o.a % NR;
		auto plan = fsm.plan((RegionID) r);
		switch (o.k % 8) {
		case 0: case 1: case 2: case 3: { // append
			MT t; const int size = REGION_SIZE[r];
			t.origin = REGION_HEAD[r] + 1 + o.b % (size - 1);
			t.dest = (o.d & 1) ? 1 + o.c % (NS - 1) : REGION_HEAD[r] + 1 + o.c % (size - 1);
			if ((o.d & 6) == 6) t.dest = t.origin; // cyclic task
			t.type = (o.d >> 3) % 7; t.hasPayload = HAS_PAYLOAD && (o.d & 0x80); t.payload = (int) (i * 1000 + o.b);
			const bool ok = App<decltype(plan), HAS_PAYLOAD>::go(plan, t);
			if (total < capacity) { if (!ok) return fail(i, "append failed although the task capacity is not reached"); model[r].push_back(t); ++total; }
			else { if (ok) return fail(i, "append succeeded beyond the task capacity"); failedAppend = true; st.cls("append_at_capacity"); }
			break; }
		case 4: case 5: { // remove while iterating
			std::vector<MT> keep; size_t k = 0; const size_t n0 = model[r].size();
			for (auto it = plan.begin(); it; ++it, ++k) {
				if (k >= n0) return fail(i, "iteration yields more tasks than were appended");
				if ((o.b >> (k % 8)) & 1) { it.remove(); --total; if (k > 0 && k + 1 < n0) removedMiddle = true; st.cls("task_removed_while_iterating"); }
				else keep.push_back(model[r][k]);
			}
			if (k != n0) return fail(i, "iteration with removal visited fewer tasks than the plan holds");
			model[r] = keep; break; }
		case 6: if (o.b < 90) { plan.clear(); total -= (int) model[r].size(); model[r].clear(); st.cls("plan_clear"); } break;
		case 7: if (o.b >= 170 && restartIfManual(fsm, std::integral_constant<bool, MANUAL>{})) { // a restart wipes every plan and gives the whole task capacity back
				for (int q = 0; q < NR; ++q) model[q].clear(); if (total > 0) st.cls("restart_with_tasks_stored"); total = 0; }
			else fsm.update(); // runs the library's own verifyPlans(); nobody succeeds, so no task may be executed
			break;
		}
		// every region's plan iterates exactly its own tasks, in insertion order, with the data they were given
		for (int q = 0; q < NR; ++q) {
			auto p = fsm.plan((RegionID) q); size_t k = 0;
			if ((bool) p != !model[q].empty()) { std::snprintf(buf, sizeof buf, "C07 op#%zu: plan(%d) converts to %d but holds %zu tasks", i, q, (int) (bool) p, model[q].size()); return buf; }
			for (auto it = p.begin(); it; ++it, ++k) {
				if (k >= model[q].size()) { std::snprintf(buf, sizeof buf, "C07 op#%zu: plan(%d) iterates more than its %zu tasks", i, q, model[q].size()); return buf; }
				if (!App<decltype(p), HAS_PAYLOAD>::same(*it, model[q][k])) { std::snprintf(buf, sizeof buf, "C07 op#%zu: plan(%d) task %zu is %d->%d/%s, appended as %d->%d/%s%s", i, q, k, (int) it->origin, (int) it->destination, TTN[(int) it->type % 7], model[q][k].origin, model[q][k].dest, TTN[model[q][k].type], model[q][k].hasPayload ? " +payload" : ""); return buf; }
			}
			if (k != model[q].size()) { std::snprintf(buf, sizeof buf, "C07 op#%zu: plan(%d) iterates %zu tasks, %zu were appended and not removed", i, q, k, model[q].size()); return buf; }
		}
		if (hv::breaks().count) { std::snprintf(buf, sizeof buf, "C07 op#%zu: library assertion tripped at %s:%d", i, hv::breaks().file, hv::breaks().line); return buf; }
		for (int k = 0; k < 64; ++k) if (g.pre[k] != 0xA5 || g.post[k] != 0x5A) return fail(i, "wrote outside the instance");
	}
	nontrivial = failedAppend && removedMiddle;
	return "";
}

std::vector<Op> decodeOps(hv::Reader& r) { std::vector<Op> ops; while (r.more()) { Op o; o.k = r.u8(); o.a = r.u8(); o.b = r.u8(); o.c = r.u8(); o.d = r.u8(); ops.push_back(o); } return ops; }

} // namespace

static std::string hv_render(const hv::Bytes& c);
static void hv_init(hv::Stats& st) {
	st.rule = "case = (configuration of 3: capacity 5 / capacity 12 with int payloads / default capacity, op list over the 6 regions of a 14-state machine: append of any kind (cyclic, out-of-region destinations, payloads), "
			  "remove-while-iterating by bit mask, clear, update() (runs the library's verifyPlans), exit()+enter() under manual activation); after every op all six plans are iterated and compared with per-region vectors; non-trivial = an append was refused at capacity and a task was removed from the middle of a plan.";
}
static std::string hv_run(const hv::Bytes& c, hv::Stats& st) {
	++st.evaluations; hv::Reader r(c);
	const unsigned cfg = r.u8() % 3; std::vector<Op> ops = decodeOps(r);
	bool nt = false; std::string v;
	if (cfg == 0) v = runCase<MA, false, false>(ops, st, nt, 5); else if (cfg == 1) v = runCase<MB, true, false>(ops, st, nt, 12); else v = runCase<MC, false, true>(ops, st, nt, 2 * (3 + 2 + 2 + 2 + 2));
	st.cls(std::string("config_") + std::to_string(cfg));
	if (nt && v.empty() && st.nontrivial.insert(hv::fnv(c)).second && st.wantSample(std::to_string(cfg), 1)) st.addSample(std::to_string(cfg), hv_render(c));
	return v;
}
static std::string hv_render(const hv::Bytes& c) {
	hv::Reader r(c); const unsigned cfg = r.u8() % 3; std::vector<Op> ops = decodeOps(r); std::ostringstream o;
	static const char* CN[3] = {"capacity 5", "capacity 12 + int payload", "default capacity, manual"};
	static const char* ON[8] = {"append", "append", "append", "append", "iterate-remove", "iterate-remove", "clear?", "update"};
	o << CN[cfg] << ":"; for (auto& op : ops) o << " " << ON[op.k % 8] << "(r" << op.a % NR << "," << (int) op.b << "," << (int) op.c << "," << (int) op.d << ")";
	return o.str();
}
#ifndef HV_FUZZER
static rc::Gen<hv::Bytes> hv_gen() {
	using namespace rc;
	auto op = gen::map(gen::tuple(hv::weighted({3, 3, 3, 3, 2, 2, 1, 1}), hv::byte(), hv::byte(), hv::byte(), hv::byte()), [](const std::tuple<int, uint8_t, uint8_t, uint8_t, uint8_t>& t) {
		return std::array<uint8_t, 5>{{(uint8_t) std::get<0>(t), std::get<1>(t), std::get<2>(t), std::get<3>(t), std::get<4>(t)}}; });
	return gen::map(gen::tuple(hv::range(0, 3), gen::container<std::vector<std::array<uint8_t, 5>>>(op)), [](const std::tuple<int, std::vector<std::array<uint8_t, 5>>>& t) {
		hv::Bytes b{(uint8_t) std::get<0>(t)}; for (auto& o : std::get<1>(t)) b.insert(b.end(), o.begin(), o.end()); return b; });
}
#endif
HV_MAIN("C07 plan storage")
