// Common plumbing of every harness binary: case files, statistics, JSON, rapidcheck driver,
// replay mode, libFuzzer entry, assertion latch.
//
// A harness defines
//     static std::string hv_run(const hv::Bytes& c, hv::Stats& st);   // "" = property held
//     static std::string hv_render(const hv::Bytes& c);               // human readable case
//     static rc::Gen<hv::Bytes> hv_gen();                             // structured generator
// and ends with  HV_MAIN("description")
#pragma once
#include <cstdint>
#include <cstdio>
#include <cstdlib>
#include <cstring>
#include <map>
#include <set>
#include <string>
#include <vector>
#include <unistd.h>

#ifndef HV_FUZZER
#include <rapidcheck.h>
#endif

namespace hv {

using Bytes = std::vector<uint8_t>;

//------------------------------------------------------------------------------
// assertion latch (HFSM2_BREAK is routed here through the HFSM2_VERIF hook)

struct BreakLatch {
	unsigned long count = 0;
	const char*   file  = nullptr;
	int           line  = 0;
	bool          expectFullBranch = false; // see hv_break()
};
inline BreakLatch& breaks() { static BreakLatch b; return b; }

//------------------------------------------------------------------------------

inline uint64_t fnv(const uint8_t* p, size_t n, uint64_t h = 1469598103934665603ull) {
	for (size_t i = 0; i < n; ++i) { h ^= p[i]; h *= 1099511628211ull; }
	return h;
}
inline uint64_t fnv(const Bytes& b) { return fnv(b.data(), b.size()); }

inline std::string jesc(const std::string& s) {
	std::string o;
	for (unsigned char ch : s) {
		switch (ch) {
		case '"':  o += "\\\""; break;
		case '\\': o += "\\\\"; break;
		case '\n': o += "\\n";  break;
		case '\t': o += "\\t";  break;
		default:
			if (ch < 0x20) { char b[8]; std::snprintf(b, sizeof b, "\\u%04x", ch); o += b; }
			else o += (char) ch;
		}
	}
	return o;
}

struct Stats {
	uint64_t evaluations = 0;
	std::set<uint64_t> nontrivial;             // hashes of distinct non-trivial cases
	std::map<std::string, uint64_t> classes;   // generator distribution / oracle counters
	std::map<std::string, uint64_t> known;     // known-finding id -> occurrences
	std::vector<std::string> samples;          // rendered non-trivial cases
	uint64_t failures = 0;
	std::string firstFailure;
	std::string rule;
	std::string binary;

	std::map<std::string, int> sampleKinds;
	// keep at most 'perKind' rendered samples per kind (so that samples show every shape of case)
	bool wantSample(const std::string& kind, int perKind = 2) const { auto it = sampleKinds.find(kind); return (it == sampleKinds.end() || it->second < perKind) && samples.size() < 12; }
	void addSample(const std::string& kind, const std::string& text) { ++sampleKinds[kind]; samples.push_back(text); }
	void cls(const char* k, uint64_t n = 1) { classes[k] += n; }
	void cls(const std::string& k, uint64_t n = 1) { classes[k] += n; }

	void writeJson(const char* path) const {
		FILE* f = std::fopen(path, "w");
		if (!f) return;
		std::fprintf(f, "{\n \"binary\": \"%s\",\n \"evaluations\": %llu,\n \"distinct_nontrivial\": %llu,\n \"failures\": %llu,\n",
			jesc(binary).c_str(), (unsigned long long) evaluations, (unsigned long long) nontrivial.size(), (unsigned long long) failures);
		std::fprintf(f, " \"first_failure\": \"%s\",\n \"rule\": \"%s\",\n", jesc(firstFailure).c_str(), jesc(rule).c_str());
		std::fprintf(f, " \"classes\": {");
		bool first = true;
		for (auto& kv : classes) { std::fprintf(f, "%s\n  \"%s\": %llu", first ? "" : ",", jesc(kv.first).c_str(), (unsigned long long) kv.second); first = false; }
		std::fprintf(f, "\n },\n \"known\": {");
		first = true;
		for (auto& kv : known) { std::fprintf(f, "%s\n  \"%s\": %llu", first ? "" : ",", jesc(kv.first).c_str(), (unsigned long long) kv.second); first = false; }
		std::fprintf(f, "\n },\n \"samples\": [");
		first = true;
		for (auto& s : samples) { std::fprintf(f, "%s\n  \"%s\"", first ? "" : ",", jesc(s).c_str()); first = false; }
		std::fprintf(f, "\n ]\n}\n");
		std::fclose(f);
	}
};

inline bool writeFile(const std::string& path, const Bytes& b) {
	FILE* f = std::fopen(path.c_str(), "wb");
	if (!f) return false;
	if (!b.empty()) std::fwrite(b.data(), 1, b.size(), f);
	std::fclose(f);
	return true;
}
inline bool readFile(const std::string& path, Bytes& b) {
	FILE* f = std::fopen(path.c_str(), "rb");
	if (!f) return false;
	b.clear();
	uint8_t buf[4096]; size_t n;
	while ((n = std::fread(buf, 1, sizeof buf, f)) > 0) b.insert(b.end(), buf, buf + n);
	std::fclose(f);
	return true;
}

// byte reader used by all decoders: reading past the end yields zeros (every byte string is a valid case)
struct Reader {
	const Bytes& b; size_t pos = 0;
	explicit Reader(const Bytes& b_) : b(b_) {}
	bool     more() const { return pos < b.size(); }
	uint8_t  u8()  { return pos < b.size() ? b[pos++] : (pos++, (uint8_t) 0); }
	uint16_t u16() { uint16_t lo = u8(); return (uint16_t) (lo | (u8() << 8)); }
	uint32_t u32() { uint32_t lo = u16(); return lo | ((uint32_t) u16() << 16); }
	uint64_t u64() { uint64_t lo = u32(); return lo | ((uint64_t) u32() << 32); }
};

struct Options {
	std::string prop, profile, replay, statsPath, replayOut, pendingPath;
	std::set<std::string> known;   // ids of listed known findings (KNOWN_FINDINGS.txt) whose emulation may be used
	long extra = 0;
	bool isKnown(const char* id) const { return known.count(id) != 0; }
};
inline Options& opts() { static Options o; return o; }

#ifndef HV_FUZZER
// size-independent integer range (rc::gen::inRange collapses at small sizes)
inline rc::Gen<int> range(int lo, int hi) { return rc::gen::resize(100, rc::gen::inRange<int>(lo, hi)); }
inline rc::Gen<uint8_t> byte() { return rc::gen::map(range(0, 256), [](int v) { return (uint8_t) v; }); }
// weighted choice among small integers: weights[i] is the weight of value i
inline rc::Gen<int> weighted(std::vector<int> weights) {
	int total = 0; for (int w : weights) total += w;
	return rc::gen::map(range(0, total), [weights](int v) { int i = 0; for (; i < (int) weights.size(); ++i) { if (v < weights[i]) break; v -= weights[i]; } return i; });
}
#endif

} // namespace hv

extern "C" void hfsm2_verif_break(const char* file, int line) noexcept;

//------------------------------------------------------------------------------

#ifdef HV_FUZZER

// libFuzzer build: property and known-finding ids come from the environment (HV_PROP, HV_KNOWN); statistics are written at exit
#define HV_MAIN(DESC)                                                                             \
	extern "C" void hfsm2_verif_break(const char* file, int line) noexcept {                      \
		auto& b = hv::breaks(); if (!b.count++) { b.file = file; b.line = line; } }               \
	static hv::Stats g_fstats;                                                                    \
	static void hv_fuzz_exit() { if (const char* p = std::getenv("HV_STATS")) g_fstats.writeJson(p); } \
	extern "C" int LLVMFuzzerTestOneInput(const uint8_t* data, size_t size) {                     \
		static bool inited = false;                                                               \
		if (!inited) { inited = true; auto& o = hv::opts();                                       \
			if (const char* p = std::getenv("HV_PROP")) o.prop = p;                               \
			if (const char* k = std::getenv("HV_KNOWN")) { std::string ks = k; size_t p = 0; while (p <= ks.size()) { size_t q = ks.find(',', p); if (q == std::string::npos) q = ks.size(); if (q > p) o.known.insert(ks.substr(p, q - p)); p = q + 1; } } \
			g_fstats.binary = "fuzzer"; hv_init(g_fstats); std::atexit(hv_fuzz_exit); }            \
		hv::Bytes c(data, data + size);                                                           \
		hv::breaks() = hv::BreakLatch{};                                                          \
		std::string v = hv_run(c, g_fstats);                                                      \
		if (!v.empty()) {                                                                         \
			std::fprintf(stderr, "HV-FAIL %s\n%s\n", v.c_str(), hv_render(c).c_str());            \
			hv_fuzz_exit();                                                                       \
			__builtin_trap();                                                                     \
		}                                                                                         \
		return 0;                                                                                 \
	}

#else

#define HV_MAIN(DESC)                                                                             \
	extern "C" void hfsm2_verif_break(const char* file, int line) noexcept {                      \
		auto& b = hv::breaks(); if (!b.count++) { b.file = file; b.line = line; } }               \
	int main(int argc, char** argv) {                                                             \
		auto& o = hv::opts();                                                                     \
		for (int i = 1; i < argc; ++i) {                                                          \
			std::string a = argv[i];                                                              \
			auto next = [&]() -> std::string { return i + 1 < argc ? argv[++i] : ""; };           \
			if (a == "--prop") o.prop = next(); else if (a == "--profile") o.profile = next();    \
			else if (a == "--replay") o.replay = next(); else if (a == "--stats") o.statsPath = next(); \
			else if (a == "--replay-out") o.replayOut = next(); else if (a == "--pending") o.pendingPath = next(); \
			else if (a == "--extra") o.extra = std::atol(next().c_str());                          \
			else if (a == "--known") { std::string k = next(); size_t p = 0;                      \
				while (p <= k.size()) { size_t q = k.find(',', p); if (q == std::string::npos) q = k.size(); if (q > p) o.known.insert(k.substr(p, q - p)); p = q + 1; } } \
		}                                                                                         \
		hv::Stats st; st.binary = argv[0];                                                        \
		hv_init(st);                                                                              \
		if (!o.replay.empty()) {                                                                  \
			hv::Bytes c; if (!hv::readFile(o.replay, c)) { std::fprintf(stderr, "cannot read %s\n", o.replay.c_str()); return 2; } \
			hv::breaks() = hv::BreakLatch{};                                                      \
			std::string v = hv_run(c, st);                                                        \
			std::printf("%s\n", hv_render(c).c_str());                                            \
			if (!v.empty()) { std::printf("REPLAY-FAIL %s\n", v.c_str()); return 1; }             \
			std::printf("REPLAY-PASS\n"); return 0;                                               \
		}                                                                                         \
		bool ok = rc::check(DESC, [&]() {                                                         \
			const hv::Bytes c = *hv_gen();                                                        \
			if (!o.pendingPath.empty()) hv::writeFile(o.pendingPath, c);                          \
			hv::breaks() = hv::BreakLatch{};                                                      \
			std::string v = hv_run(c, st);                                                        \
			if (!v.empty()) {                                                                     \
				++st.failures; if (st.firstFailure.empty()) st.firstFailure = v;                  \
				if (!o.replayOut.empty()) hv::writeFile(o.replayOut, c);                          \
				RC_FAIL(v);                                                                       \
			}                                                                                     \
		});                                                                                       \
		if (!o.pendingPath.empty()) ::unlink(o.pendingPath.c_str());                              \
		if (!o.statsPath.empty()) st.writeJson(o.statsPath.c_str());                              \
		return ok ? 0 : 1;                                                                        \
	}

#endif
