// Reference model of request processing (C02), written from the property statement over the generated
// structure table. Requires hv_machine.hpp (node(), sub(), HV_* constants).
#pragma once
#include <vector>
#include <string>

namespace hvm {

enum TType { T_CHANGE, T_RESTART, T_RESUME, T_SELECT, T_UTILIZE, T_RANDOMIZE, T_SCHEDULE };

struct Cfg {
	short active[HV_COMPO_COUNT], resumable[HV_COMPO_COUNT];
	bool on = false; // machine activated
	Cfg() { for (int i = 0; i < HV_COMPO_COUNT; ++i) active[i] = resumable[i] = -1; }
	bool sameActive(const Cfg& o) const { if (on != o.on) return false; for (int i = 0; i < HV_COMPO_COUNT; ++i) if (active[i] != o.active[i]) return false; return true; }
	bool sameResumable(const Cfg& o) const { for (int i = 0; i < HV_COMPO_COUNT; ++i) if (resumable[i] != o.resumable[i]) return false; return true; }
	std::string str() const { std::string s = on ? "" : "(off) "; for (int i = 0; i < HV_COMPO_COUNT; ++i) { s += std::to_string(active[i]) + "/" + std::to_string(resumable[i]) + " "; } return s; }
};

struct Req { int type, dest; };

// environment the user callbacks present to the library in this step
struct Env {
	const uint8_t* sel; const float* util; const int8_t* rank; const float* rnd; int rndUsed = 0;
	float nextRnd() { return rnd[(rndUsed++) % 8]; }
};

struct Model {
	Cfg cfg;
	short req[HV_COMPO_COUNT];
	char remain[HV_COMPO_COUNT];
	Env env{};
	// bookkeeping for the oracle
	bool touchedRegion[HV_COMPO_COUNT];  // region got a requested sub-state in this step
	bool resolvedByKind = false;         // some region was resolved by the request kind (not only by the path)
	bool usedRandom = false;
	bool randomNone = false;             // a random draw had no candidate (precondition violated by the case)
	// predicted lifecycle callbacks of the commit: per state, how many exit / enter / reenter it receives
	unsigned char lifeExit[HV_NS], lifeEnter[HV_NS], lifeReenter[HV_NS];
	void clearLife() { for (int i = 0; i < HV_NS; ++i) lifeExit[i] = lifeEnter[i] = lifeReenter[i] = 0; }

	Model() { clearReq(); }
	void clearReq() { for (int i = 0; i < HV_COMPO_COUNT; ++i) { req[i] = -1; remain[i] = 0; touchedRegion[i] = false; } resolvedByKind = false; usedRandom = false; randomNone = false; clearLife(); }

	static int effective(int ty, int strat) {
		if (ty != T_CHANGE) return ty;
		switch (strat) { case S_COMPOSITE: return T_RESTART; case S_RESUMABLE: return T_RESUME; case S_SELECTABLE: return T_SELECT; case S_UTILITARIAN: return T_UTILIZE; default: return T_RANDOMIZE; }
	}
	int rankOf(int s) const { return node(s).kind != LEAF && node(s).headless ? 0 : env.rank[s]; }
	float headUtil(int s) const { return node(s).kind != LEAF && node(s).headless ? 1.0f : env.util[s]; }

	short picks[HV_COMPO_COUNT];   // choices made while evaluating candidates; applied only along the chosen branch

	// Evaluate state s as a candidate for request kind ty: returns its utility and records, for every composite-style
	// region inside it, the sub-state that region would activate. Each region is evaluated exactly once (a random region
	// consumes exactly one generator output per evaluation).
	float eval(int s, int ty) {
		const Node& nd = node(s);
		const float h = headUtil(s);
		if (nd.kind == LEAF) return h;
		if (nd.kind == ORTHO) { // evaluated in declaration order; the library sums first + (rest)
			float v[16]; for (int i = 0; i < nd.nsubs; ++i) v[i] = eval(sub(s, i), ty);
			float total = 0; for (int i = nd.nsubs - 1; i >= 0; --i) total = v[i] + total;
			return h * (total / (float) nd.nsubs); }
		int pick = 0; float u = 0;
		switch (effective(ty, nd.strat)) {
		case T_RESTART: pick = 0; u = eval(sub(s, 0), ty); break;
		case T_RESUME: pick = cfg.resumable[nd.compo] >= 0 ? cfg.resumable[nd.compo] : 0; u = eval(sub(s, pick), ty); break;
		case T_SELECT: pick = nd.headless ? 0 : env.sel[s] % nd.nsubs; u = eval(sub(s, pick), ty); break;
		case T_UTILIZE: { float best = -1; for (int i = 0; i < nd.nsubs; ++i) { const float ui = eval(sub(s, i), ty); if (ui > best) { best = ui; pick = i; } } u = best; break; }
		default: { // T_RANDOMIZE
			int top = -128; for (int i = 0; i < nd.nsubs; ++i) top = std::max(top, rankOf(sub(s, i)));
			float ui[16]; float sum = 0;
			for (int i = 0; i < nd.nsubs; ++i) { ui[i] = 0; if (rankOf(sub(s, i)) == top) ui[i] = eval(sub(s, i), ty); }
			// the library adds the candidates up pairwise over a balanced split of the sub-state list
			sum = pairwiseSum(ui, 0, nd.nsubs);
			const float r = env.nextRnd(); usedRandom = true;
			float cur = r * sum; int last = -1; pick = -1;
			for (int i = 0; i < nd.nsubs; ++i) if (rankOf(sub(s, i)) == top) { if (cur >= ui[i]) { cur -= ui[i]; if (ui[i] > 0) last = i; } else { pick = i; break; } }
			if (pick < 0) pick = last;
			if (pick < 0) { randomNone = true; pick = 0; }
			u = ui[pick]; break; }
		}
		picks[nd.compo] = (short) pick;
		return h * u;
	}
	static float pairwiseSum(const float* v, int lo, int hi) { const int n = hi - lo; if (n == 1) return v[lo]; const int l = n / 2; return pairwiseSum(v, lo, lo + l) + pairwiseSum(v, lo + l, hi); }

	void applyPicks(int s) {
		const Node& nd = node(s);
		if (nd.kind == LEAF) return;
		if (nd.kind == ORTHO) { for (int i = 0; i < nd.nsubs; ++i) applyPicks(sub(s, i)); return; }
		const int pick = picks[nd.compo];
		req[nd.compo] = (short) pick; touchedRegion[nd.compo] = true; resolvedByKind = true;
		if (pick >= 0) applyPicks(sub(s, pick));
	}
	void resolveDown(int s, int ty) { eval(s, ty); applyPicks(s); }
	static bool onPath(int s, int dest) { int c = dest; while (c >= 0) { if (c == s) return true; c = node(c).parent; } return false; }
	void forward(int s, bool requestMode, const Req& r) {
		const Node& nd = node(s);
		if (nd.kind == LEAF) return;
		if (nd.kind == COMPO) {
			const int rq = req[nd.compo];
			if (!requestMode) { if (rq < 0) { if (cfg.active[nd.compo] >= 0) forward(sub(s, cfg.active[nd.compo]), false, r); } else forward(sub(s, rq), true, r); }
			else { if (rq >= 0) forward(sub(s, rq), true, r); else resolveDown(s, r.type); }
		} else {
			if (!requestMode) { for (int i = 0; i < nd.nsubs; ++i) if (onPath(sub(s, i), r.dest)) forward(sub(s, i), false, r); }
			else { for (int i = 0; i < nd.nsubs; ++i) forward(sub(s, i), true, r); }
		}
	}
	void applyOne(const Req& r) {
		if (r.type == T_SCHEDULE) {
			// schedule marks the destination in its own (composite-style) region; a sub-state of an orthogonal region has no such mark
			const int pi = node(r.dest).parent;
			if (pi >= 0 && node(pi).kind == COMPO) cfg.resumable[node(pi).compo] = node(r.dest).prong;
			return;
		}
		if (r.dest == 0) { resolveDown(0, r.type); return; }
		bool first = true; int cur = r.dest;
		while (node(cur).parent >= 0) {
			const int pi = node(cur).parent; const Node& p = node(pi); const int pr = node(cur).prong;
			if (p.kind == COMPO) {
				short& rq = req[p.compo];
				if (first) { rq = (short) pr; touchedRegion[p.compo] = true; first = false; }
				else { remain[p.compo] = 1; if ((rq >= 0 && rq != pr) || cfg.active[p.compo] != pr) { rq = (short) pr; touchedRegion[p.compo] = true; } }
			}
			cur = pi;
		}
		forward(0, false, r);
	}
	// exit / enter / reenter of the state object s itself (anonymous heads have none, they are still counted: the oracle skips them)
	void deactivate(int s) { const Node& nd = node(s);
		if (nd.kind == ORTHO) { for (int i = 0; i < nd.nsubs; ++i) deactivate(sub(s, i)); }
		else if (nd.kind == COMPO) { const int a = cfg.active[nd.compo]; if (a >= 0) { deactivate(sub(s, a)); cfg.resumable[nd.compo] = (short) a; cfg.active[nd.compo] = -1; } }
		++lifeExit[s]; }
	void activate(int s) { const Node& nd = node(s);
		++lifeEnter[s];
		if (nd.kind == ORTHO) { for (int i = 0; i < nd.nsubs; ++i) activate(sub(s, i)); }
		else if (nd.kind == COMPO) { const int r = req[nd.compo]; cfg.active[nd.compo] = (short) r; if (cfg.resumable[nd.compo] == r) cfg.resumable[nd.compo] = -1; if (r >= 0) activate(sub(s, r)); } }
	void reenter(int s) { const Node& nd = node(s);
		++lifeReenter[s];
		if (nd.kind == LEAF) return;
		if (nd.kind == ORTHO) { for (int i = 0; i < nd.nsubs; ++i) reenter(sub(s, i)); return; }
		const int a = cfg.active[nd.compo], r = req[nd.compo];
		if (r < 0 || r == a) { if (a >= 0) reenter(sub(s, a)); }
		else { deactivate(sub(s, a)); cfg.resumable[nd.compo] = (short) a; cfg.active[nd.compo] = (short) r; activate(sub(s, r)); } }
	void commit(int s) { const Node& nd = node(s); if (nd.kind == LEAF) return; if (nd.kind == ORTHO) { for (int i = 0; i < nd.nsubs; ++i) commit(sub(s, i)); return; }
		const int a = cfg.active[nd.compo], r = req[nd.compo];
		if (a < 0) return;
		if (r < 0) commit(sub(s, a));
		else if (r != a) { deactivate(sub(s, a)); cfg.resumable[nd.compo] = (short) a; cfg.active[nd.compo] = (short) r; activate(sub(s, r)); }
		else if (remain[nd.compo]) { deactivate(sub(s, a)); activate(sub(s, a)); }
		else reenter(sub(s, a)); }
	void initial() { clearReq(); cfg = Cfg{}; cfg.on = true; resolveDown(0, T_CHANGE); activate(0); for (int i = 0; i < HV_COMPO_COUNT; ++i) req[i] = -1; }
	void off() { cfg = Cfg{}; }
};

// read the configuration through the public API
template <typename I>
inline Cfg readCfg(const I& fsm) {
	Cfg c; c.on = fsm.isActive((StateID) 0);
	for (int s = 1; s < HV_NS; ++s) {
		// the nearest composite ancestor decides for states below orthogonal regions too; only direct children are recorded
		const Node& n = node(s);
		if (node(n.parent).kind == COMPO) {
			const int ci = node(n.parent).compo;
			if (fsm.isActive((StateID) s)) c.active[ci] = n.prong;
			if (fsm.isResumable((StateID) s)) c.resumable[ci] = n.prong;
		}
	}
	return c;
}

} // namespace hvm
