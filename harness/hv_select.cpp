// C12 — utility and weighted-random selection. Every resolution the library reports (through the logger) is checked to be
// locally valid in extended precision; the activated configuration must follow the reported picks; every random region
// resolved consumes exactly one generator output.
#include "hv_machine.hpp"
#include "hv_model.hpp"
#include "hv_common.hpp"
#include <sstream>
#include <cmath>
#include <map>

using namespace hvm;

namespace {

static const float UT[16] = {0.0f, 1.0f, 1.0f, 2.0f, 0.5f, 3.0f, 0.1f, 0.3f, 1e-3f, 1e3f, 7.25f, 1e-6f, 1e6f, 0.7f, 1.3f, 0.0f};
static const float RGEN[8] = {0.0f, 0.5f, 0.25f, 0.75f, 0.99999994f, 0.99999988f, 5.9604645e-8f, 0.33333334f};
static const char* TTN[7] = {"change", "restart", "resume", "select", "utilize", "randomize", "schedule"};

struct Step { uint8_t kind, target, rmode, rj, rk; uint8_t util[HV_NS], rank[HV_NS], sel[HV_NS], rnd[8]; };
static const int STEP_BYTES = 5 + 3 * HV_NS + 8;

static std::vector<Step> decode(const hv::Bytes& b) {
	std::vector<Step> v; hv::Reader r(b); r.u8();
	while (r.more() && v.size() < 12) { Step s; s.kind = r.u8(); s.target = r.u8(); s.rmode = r.u8(); s.rj = r.u8(); s.rk = r.u8();
		for (auto& u : s.util) u = r.u8(); for (auto& k : s.rank) k = r.u8(); for (auto& k : s.sel) k = r.u8(); for (auto& k : s.rnd) k = r.u8(); v.push_back(s); }
	return v;
}

static std::vector<int> regionHeads() { std::vector<int> v; for (int s = 0; s < HV_NS; ++s) if (node(s).kind == COMPO) v.push_back(s); return v; }

struct Judge {
	Ctx& x; const Cfg& before; hv::Stats& st; std::string err;
	std::map<int, std::pair<int, float>> utilPick, randPick; // head -> (prong, value)
	int randomValidated = 0, utilValidated = 0; bool boundaryHit = false, distinctPositive = false;
	Judge(Ctx& x_, const Cfg& b, hv::Stats& s) : x(x_), before(b), st(s) {}

	int rankOf(int s) const { return isRegion(s) && node(s).headless ? 0 : x.rank[s]; }
	long double headU(int s) const { return isRegion(s) && node(s).headless ? 1.0L : (long double) x.util[s]; }
	void fail(const std::string& m) { if (err.empty()) err = m; }

	// utility of state s as a candidate under request kind ty, in extended precision, following the library's reported picks
	long double eval(int s, int ty) {
		const Node& nd = node(s); const long double h = headU(s);
		if (nd.kind == LEAF) return h;
		if (nd.kind == ORTHO) { long double sum = 0; for (int i = 0; i < nd.nsubs; ++i) sum += eval(sub(s, i), ty); return h * (sum / nd.nsubs); }
		int pick = 0; long double u = 0;
		switch (Model::effective(ty, nd.strat)) {
		case T_RESTART: pick = 0; u = eval(sub(s, 0), ty); break;
		case T_RESUME: pick = before.resumable[nd.compo] >= 0 ? before.resumable[nd.compo] : 0; u = eval(sub(s, pick), ty); break;
		case T_SELECT: pick = nd.headless ? 0 : x.sel[s] % nd.nsubs; u = eval(sub(s, pick), ty); break;
		case T_UTILIZE: u = judgeUtilize(s, ty, pick); break;
		default: u = judgeRandom(s, ty, pick); break;
		}
		picks[nd.compo] = pick;
		return h * u;
	}
	int picks[HV_COMPO_COUNT];

	long double judgeUtilize(int s, int ty, int& pick) {
		const Node& nd = node(s); char buf[300];
		long double u[16]; long double best = -1; for (int i = 0; i < nd.nsubs; ++i) { u[i] = eval(sub(s, i), ty); if (u[i] > best) best = u[i]; }
		auto it = utilPick.find(s);
		if (it == utilPick.end()) { std::snprintf(buf, sizeof buf, "region %d was resolved by utility but no utility resolution was reported for it", s); fail(buf); pick = 0; return u[0]; }
		pick = it->second.first;
		if (pick < 0 || pick >= nd.nsubs) { std::snprintf(buf, sizeof buf, "utility resolution of region %d picked sub-state index %d of %d", s, pick, nd.nsubs); fail(buf); pick = 0; return u[0]; }
		++utilValidated;
		const long double tol = best * 8.0L * 5.9604645e-8L; // 4 ulp of float at the maximum
		if (u[pick] < best - tol) { std::snprintf(buf, sizeof buf, "utilize on region %d picked sub-state %d with utility %.9Lg although sub-state utility %.9Lg is available", s, sub(s, pick), u[pick], best); fail(buf); }
		// first wins on exact ties - judged for plain states only: the value of a region candidate is a product over its sub-tree that the library
		// rounds in single precision, so two region candidates can be equal here (extended precision) and different there
		for (int i = 0; i < pick; ++i) if (node(sub(s, i)).kind == LEAF && node(sub(s, pick)).kind == LEAF && u[i] >= u[pick] && u[i] >= best - tol && u[i] == u[pick]) { std::snprintf(buf, sizeof buf, "utilize on region %d picked sub-state %d although the earlier sub-state %d has exactly the same utility %.9Lg (first wins on ties)", s, sub(s, pick), sub(s, i), u[i]); fail(buf); }
		for (int i = 0; i < pick; ++i) if (u[i] > u[pick] + tol) { std::snprintf(buf, sizeof buf, "utilize on region %d picked sub-state %d (%.9Lg) over the earlier sub-state %d (%.9Lg)", s, sub(s, pick), u[pick], sub(s, i), u[i]); fail(buf); }
		int positive = 0; for (int i = 0; i < nd.nsubs; ++i) if (u[i] > 0) for (int j = 0; j < i; ++j) if (u[j] > 0 && u[j] != u[i]) positive = 1;
		if (positive) distinctPositive = true;
		return u[pick];
	}

	long double judgeRandom(int s, int ty, int& pick) {
		const Node& nd = node(s); char buf[400];
		int top = -128; for (int i = 0; i < nd.nsubs; ++i) top = std::max(top, rankOf(sub(s, i)));
		long double u[16]; long double S = 0; int cands = 0, distinct = 0;
		for (int i = 0; i < nd.nsubs; ++i) { u[i] = 0; if (rankOf(sub(s, i)) == top) { u[i] = eval(sub(s, i), ty); S += u[i]; ++cands; } }
		for (int i = 0; i < nd.nsubs; ++i) for (int j = 0; j < i; ++j) if (u[i] > 0 && u[j] > 0 && u[i] != u[j]) distinct = 1;
		auto it = randPick.find(s);
		if (it == randPick.end()) { std::snprintf(buf, sizeof buf, "region %d was resolved by a weighted draw but no random resolution was reported for it", s); fail(buf); pick = 0; return u[0]; }
		pick = it->second.first; const long double r = it->second.second;
		if (!(S > 0)) { preconditionBroken = true; pick = pick < 0 || pick >= nd.nsubs ? 0 : pick; return u[pick]; }
		if (pick < 0 || pick >= nd.nsubs) { std::snprintf(buf, sizeof buf, "weighted draw on region %d (r = %.9Lg, sum %.9Lg, %d candidates) selected no sub-state", s, r, S, cands); fail(buf); pick = 0; return u[0]; }
		++randomValidated; if (cands >= 2 && distinct) distinctPositive = true;
		if (rankOf(sub(s, pick)) != top) { std::snprintf(buf, sizeof buf, "weighted draw on region %d picked sub-state %d of rank %d, the highest rank is %d", s, sub(s, pick), rankOf(sub(s, pick)), top); fail(buf); }
		if (!(u[pick] > 0)) { std::snprintf(buf, sizeof buf, "weighted draw on region %d picked sub-state %d whose utility is zero", s, sub(s, pick)); fail(buf); }
		long double lo = 0; for (int i = 0; i < pick; ++i) lo += u[i]; const long double hi = lo + u[pick];
		const long double eps = S * 9.5367431640625e-7L; // 2^-20 * S: stated tolerance for the float walk
		const long double cur = r * S;
		if (cur < lo - eps || cur >= hi + eps) { std::snprintf(buf, sizeof buf, "weighted draw on region %d: r = %.9Lg, r*sum = %.9Lg lies outside the interval [%.9Lg, %.9Lg) of the picked sub-state %d (sum %.9Lg)", s, r, cur, lo, hi, sub(s, pick), S); fail(buf); }
		// was r within 2 ulp of an interval boundary?
		{ long double c = 0; for (int i = 0; i < nd.nsubs; ++i) { c += u[i]; const long double b = c / S; if (std::fabs((double) (r - b)) <= 2.4e-7) boundaryHit = true; } }
		return u[pick];
	}
	bool preconditionBroken = false;

	// the activated configuration follows the reported picks
	void verifyPath(const Instance& f, int s) {
		const Node& nd = node(s); char buf[200];
		if (nd.kind == LEAF) return;
		if (nd.kind == ORTHO) { for (int i = 0; i < nd.nsubs; ++i) verifyPath(f, sub(s, i)); return; }
		const int a = (int) f.activeSubState((StateID) s);
		if (a != picks[nd.compo]) { std::snprintf(buf, sizeof buf, "region %d activated sub-state index %d, the resolution picked %d", s, a, picks[nd.compo]); fail(buf); return; }
		verifyPath(f, sub(s, a));
	}
};

} // namespace

static std::string hv_render(const hv::Bytes& b);
static void hv_init(hv::Stats& st) {
	st.rule = std::string("machine ") + HV_MACHINE_SPEC + "; case = up to 12 steps, each: utilities (16-value table incl. 0, 1e-6, 1e6, non-dyadic), ranks in -2..2, select answers, 8 scripted generator outputs "
			  "(generic set or one computed from the target region's own cumulative sums: boundary j/S nudged by -2..2 ulp), then one immediate utilize/randomize/change/restart on a region head or the root; "
			  "every reported utility/random resolution is validated in long double (arg-max within 4 ulp, leftmost on exact ties; interval test with tolerance 2^-20*sum, top rank, positive utility, never none), "
			  "the activated configuration must follow the picks, generator calls must equal the random resolutions. non-trivial = a resolution among >= 2 candidates with distinct positive utilities, or r within 2 ulp of a boundary.";
}

static std::string hv_run(const hv::Bytes& b, hv::Stats& st) {
	++st.evaluations;
	std::vector<Step> steps = decode(b);
	static const std::vector<int> heads = regionHeads();
	Ctx* ctx = new Ctx(); std::unique_ptr<Ctx> hold(ctx); Ctx& x = *ctx;
	ScriptRng rng; rng.ctx = &x; Logger logger;
	x.observeConfig = false; x.initialActivation = true;
	for (auto& u : x.util) u = 1.0f;
	x.beginStep(0);
	Instance fsm{x, rng, &logger};
#ifdef HV_MANUAL
	fsm.enter();
#endif
	x.initialActivation = false;
	bool nt = false; std::string v; char buf[400];
	for (size_t k = 0; k < steps.size() && v.empty(); ++k) {
		const Step& sp = steps[k];
		for (int s = 0; s < HV_NS; ++s) { x.util[s] = UT[sp.util[s] % 16]; x.rank[s] = (int8_t) ((int) (sp.rank[s] % 5) - 2); x.sel[s] = (uint8_t) (node(s).kind == COMPO ? sp.sel[s] % node(s).nsubs : 0); }
		if (sp.rank[0] & 0x80) for (int s = 0; s < HV_NS; ++s) x.rank[s] = 0; // often: one rank class only
		for (int i = 0; i < 8; ++i) x.rnd[i] = RGEN[sp.rnd[i] % 8];
		const int target = sp.target % 8 == 7 ? 0 : heads[sp.target % heads.size()];
		static const int KINDS[6] = {T_UTILIZE, T_RANDOMIZE, T_CHANGE, T_RANDOMIZE, T_UTILIZE, T_RESTART};
		const int kind = KINDS[sp.kind % 6];
		const Node& tn = node(target);
		// precondition: a positive top-rank sum wherever a draw can happen. Repaired by construction, bottom-up (children have larger ids):
		// region heads are positive, every composite-style region has a positive top-rank candidate, every orthogonal region a positive sub-state.
		for (int s = 0; s < HV_NS; ++s) if (isRegion(s) && !(x.util[s] > 0.0f)) x.util[s] = 1.0f;
		{ bool positive[HV_NS];
		  for (int s = HV_NS - 1; s >= 0; --s) {
			const Node& nd = node(s);
			if (nd.kind == LEAF) { positive[s] = x.util[s] > 0.0f; continue; }
			int chosen = -1; bool any = false;
			if (nd.kind == COMPO) { int top = -128; for (int i = 0; i < nd.nsubs; ++i) { const int c = sub(s, i); top = std::max(top, isRegion(c) && node(c).headless ? 0 : (int) x.rank[c]); }
				for (int i = 0; i < nd.nsubs; ++i) { const int c = sub(s, i); const int rk = isRegion(c) && node(c).headless ? 0 : (int) x.rank[c]; if (rk == top) { if (chosen < 0) chosen = c; if (positive[c]) any = true; } } }
			else { chosen = sub(s, 0); for (int i = 0; i < nd.nsubs; ++i) if (positive[sub(s, i)]) any = true; }
			if (!any) { // make the first eligible candidate positive (a region candidate is positive already unless it is a leaf-less corner)
				int c = chosen; while (isRegion(c) && !positive[c]) c = sub(c, 0);
				if (!isRegion(c)) x.util[c] = 1.0f; positive[c] = true; for (int p = node(c).parent; p != s && p >= 0; p = node(p).parent) positive[p] = true;
				st.cls("precondition_repaired"); }
			positive[s] = true; } }
		// boundary-targeted generator output for a flat random target
		bool flat = tn.kind == COMPO && Model::effective(kind, tn.strat) == T_RANDOMIZE; for (int i = 0; flat && i < tn.nsubs; ++i) if (isRegion(sub(target, i))) flat = false;
		if (flat && (sp.rmode & 1)) {
			int top = -128; for (int i = 0; i < tn.nsubs; ++i) top = std::max(top, (int) x.rank[sub(target, i)]);
			long double S = 0, c = 0; for (int i = 0; i < tn.nsubs; ++i) if (x.rank[sub(target, i)] == top) S += x.util[sub(target, i)];
			int j = sp.rj % tn.nsubs, seen = 0; for (int i = 0; i < tn.nsubs; ++i) if (x.rank[sub(target, i)] == top) { c += x.util[sub(target, i)]; if (seen++ == j) break; }
			float r = S > 0 ? (float) (c / S) : 0.5f;
			for (int n = 0; n < (sp.rk % 5); ++n) r = std::nextafterf(r, (sp.rk & 0x80) ? 2.0f : -1.0f);
			if (!(r >= 0.0f)) r = 0.0f; if (r >= 1.0f) r = 0.99999994f;
			x.rnd[0] = r; st.cls("boundary_targeted_draws");
		}
		const Cfg before = readCfg(fsm);
		x.beginStep((uint32_t) k + 1);
		hv::breaks() = hv::BreakLatch{};
		const StateID d = (StateID) target;
		switch (kind) { case T_UTILIZE: fsm.immediateUtilize(d); break; case T_RANDOMIZE: fsm.immediateRandomize(d); break; case T_CHANGE: fsm.immediateChangeTo(d); break; default: fsm.immediateRestart(d); break; }
		Judge J(x, before, st);
		int rngCalls = 0;
		for (int i = 0; i < x.n; ++i) { const Ev& e = x.tr[i];
			if (e.kind == E_RNG) ++rngCalls;
			if (e.kind == E_LOG_UTILITY && e.a != 255 && e.a != 65535) { if (J.utilPick.count(e.state)) J.fail("a region reported two utility resolutions for one request"); J.utilPick[e.state] = {e.a, e.f}; }
			if (e.kind == E_LOG_RANDOM && e.a != 255 && e.a != 65535) { if (J.randPick.count(e.state)) J.fail("a region reported two random resolutions for one request"); J.randPick[e.state] = {e.a, e.f}; } }
		char why[200];
		if (!configWellFormed(fsm, true, why, sizeof why)) J.fail(std::string("configuration malformed after the request: ") + why);
		else {
			// the destination region (or the root) is resolved by the request kind; walk it
			for (int i = 0; i < HV_COMPO_COUNT; ++i) J.picks[i] = -1;
			if (target == 0 || node(target).kind != LEAF) { J.eval(target, kind); if (J.err.empty() && !J.preconditionBroken) J.verifyPath(fsm, target); }
			if (J.err.empty() && !J.preconditionBroken) {
				if (rngCalls != J.randomValidated) { std::snprintf(buf, sizeof buf, "%d generator outputs consumed for %d random regions resolved", rngCalls, J.randomValidated); J.fail(buf); }
				if ((int) J.randPick.size() != J.randomValidated) { std::snprintf(buf, sizeof buf, "%zu random resolutions reported, %d regions are resolved by a draw for this request", J.randPick.size(), J.randomValidated); J.fail(buf); }
				// the value reported as used is the scripted one
				int idx = 0; for (int i = 0; i < x.n; ++i) if (x.tr[i].kind == E_RNG) { if (x.tr[i].f != x.rnd[idx % 8]) J.fail("generator value recorded differs from the scripted one"); ++idx; }
			}
		}
		if (hv::breaks().count && J.err.empty()) { std::snprintf(buf, sizeof buf, "library assertion tripped at %s:%d", hv::breaks().file, hv::breaks().line); J.fail(buf); }
		if (J.preconditionBroken) st.cls("steps_precondition_not_met");
		st.cls("random_resolutions_validated", J.randomValidated); st.cls("utility_resolutions_validated", J.utilValidated);
		if (J.boundaryHit) st.cls("steps_with_r_at_boundary"); if (J.distinctPositive) st.cls("steps_distinct_positive_candidates");
		if ((J.boundaryHit || J.distinctPositive) && (J.randomValidated + J.utilValidated) > 0) nt = true;
		if (!J.err.empty()) { std::snprintf(buf, sizeof buf, "C12 step %zu %s->%d: ", k + 1, TTN[kind], target); v = buf + J.err; }
	}
	if (nt && v.empty() && st.nontrivial.insert(hv::fnv(b)).second && st.wantSample("case", 3)) st.addSample("case", hv_render(b));
	return v;
}

static std::string hv_render(const hv::Bytes& b) {
	std::vector<Step> steps = decode(b); static const std::vector<int> heads = regionHeads(); std::ostringstream o;
	static const int KINDS[6] = {T_UTILIZE, T_RANDOMIZE, T_CHANGE, T_RANDOMIZE, T_UTILIZE, T_RESTART};
	o << HV_MACHINE_NAME << ":";
	for (auto& sp : steps) { const int target = sp.target % 8 == 7 ? 0 : heads[sp.target % heads.size()];
		o << " | " << TTN[KINDS[sp.kind % 6]] << "->" << target << " util["; for (int i = 0; i < node(target).nsubs; ++i) o << (i ? "," : "") << UT[sp.util[sub(target, i)] % 16];
		o << "] rank["; for (int i = 0; i < node(target).nsubs; ++i) o << (i ? "," : "") << ((sp.rank[0] & 0x80) ? 0 : (int) (sp.rank[sub(target, i)] % 5) - 2); o << "] r0=" << ((sp.rmode & 1) ? "boundary" : "generic"); }
	return o.str();
}

#ifndef HV_FUZZER
static rc::Gen<hv::Bytes> hv_gen() {
	using namespace rc;
	auto step = gen::container<std::vector<uint8_t>>(STEP_BYTES, hv::byte());
	return gen::map(gen::container<std::vector<std::vector<uint8_t>>>(step), [](const std::vector<std::vector<uint8_t>>& v) { hv::Bytes b{0}; for (auto& s : v) b.insert(b.end(), s.begin(), s.end()); return b; });
}
#endif
HV_MAIN("C12 selection")
